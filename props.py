"""Which Verus units and Kani harnesses decide which property.  Read by bin/check.

verus:    list of unit names (files in /verif/units); every unit listed is run in both tiers.
kani:     list of harness entries:
            (group, harness, kind, tiers, bound-description [, options])
          kind   'complete' — loop-free / full-domain: counts as a discharged obligation
                 'contract' — kani::proof_for_contract on the real function: counts as an obligation
                 'bounded'  — stated bound, unwinding assertions on: reported, never counted as proved
          tiers  'q' quick+thorough, 't' thorough only
          options: dict, e.g. {'release': True} to run on the copy built without debug assertions
contracts: Kani contract attributes injected into the scratch copy {relpath: {fn: [attr, ...]}}
"""

KANI_CONTRACTS = {
    'main/src/parser_state.rs': {
        'constrain_idxs': [
            '#[cfg_attr(kani, kani::requires(len <= i32::MAX as usize))]',
            '#[cfg_attr(kani, kani::ensures(|r: &Option<Range<usize>>| match r { Some(x) => x.start <= len && x.end <= len, None => true }))]',
        ],
    },
}

PROPS = {
    'C06': {
        'level': 'proof',
        'level_text': 'Verus proves, for all arguments, that the real normalize_index/constrain_idxs compute the index normalisation the property states (negative from the top, out of range = None, no panic/overflow); Kani re-proves it loop-free over the full i32 x Option<i32> x len domain and checks a Kani function contract. Matching of slices/_ALL against the input is a labelled bounded stand-in.',
        'level_note': 'Assumes stack length <= i32::MAX. Trusts Verus/Z3, Kani/CBMC, the extractor (diff emitted per run), vstd Option/Range specs and the assumed specification of Option::map_or.',
        'technique': 'contract-based deductive verification (Verus on extracted real functions; Kani function contract + full-domain loop-free harness)',
        'verus': ['idx'],
        'expanded': False,
        'kani': [
            ('k_idx', 'idx_constrain_full', 'complete', 'q', 'all i32 x Option<i32> x len<=i32::MAX'),
            ('k_idx', 'idx_constrain_contract', 'contract', 'q', 'kani contract on constrain_idxs'),
        ],
        'assumptions': [
            'stack length <= i32::MAX (precondition of the index arithmetic; `len as i32` wraps beyond it — D6 in DESIGN.md)',
        ],
    },
}

COMMON_TRUSTED = [
    'Verus 0.2026.09.13 + Z3 (SMT encoding, vstd specifications of core types)',
    'Kani 0.68 / CBMC 6.11 (for the harnesses listed under kani_*)',
    'extractor /verif/lib/rsx.py + vgen.py and the rewrite table R1-R6 (diff written to the run directory on every run)',
    'rustc macro expansion (-Zunpretty=expanded) for macro-defined items',
    'machine integers are modelled exactly by both tools (no mathematical-integer abstraction of executable code)',
]

NOT_APPLICABLE = {
    'C11': 'generator/proc-macro property (pest_meta validator call, "emitted code compiles", termination of every parse): no function-level contract expressible in Verus/Kani over TokenStream/pest_meta ASTs; whole-grammar liveness (DESIGN.md §6)',
    'C16': 'getter code is assembled as TokenStreams by the generator (graph.rs); property is about behaviour of emitted accessors for every grammar — no contract over quote! output is expressible; would be translation validation, a different family (DESIGN.md §6)',
    'C20': 'relation between separate generator runs / separately compiled option combinations; outside any single-function contract (DESIGN.md §6)',
}
for _p in ['C01','C02','C03','C04','C05','C07','C08','C09','C10','C12','C13','C14','C15','C17','C18','C19']:
    NOT_APPLICABLE.setdefault(_p, 'not built yet in this session (planned in DESIGN.md §5); not claimed until its check exists')
