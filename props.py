"""Which Verus units and Kani harnesses decide which property.  Read by bin/check and bin/mkmanifest.

verus:    list of unit names (files in /verif/units); every unit listed is run in both tiers.
kani:     list of harness entries:
            (group, harness, kind, tiers, bound-description [, options])
          kind   'complete' — loop-free / full-domain: counts as a discharged obligation
                 'contract' — kani::proof_for_contract on the real function: counts as an obligation
                 'bounded'  — stated bound, unwinding assertions on: reported, never counted as proved
          tiers  'q' quick+thorough, 't' thorough only, 'Q' quick only
          options: dict, e.g. {'release': True} to run on the copy built without debug assertions
contracts: Kani contract attributes injected into the scratch copy {relpath: {fn: [attr, ...]}}
"""

KANI_CONTRACTS = {
    'main/src/parser_state.rs': {
        'constrain_idxs': [
            '#[cfg_attr(kani, kani::requires(len <= i32::MAX as usize))]',
            '#[cfg_attr(kani, kani::ensures(|r: &Option<Range<usize>>| match r { Some(x) => x.start <= len && x.end <= len, None => true }))]',
        ],
    },
}

KANI_GROUP_DEPS = {'k_peg': ['refpeg', 'peg_common']}


# ---- shared harness lists ---------------------------------------------------------------------------------------
NB_PEG = [
    ('nb_peg', 'nb_peg_seq3', 'a ~ b ~ a with skip; all strings<=8 chars over {a,b,space}', 'q'),
    ('nb_peg', 'nb_peg_seq2_atomic', '@{a ~ b}; all strings<=7 chars over {a,b,space}', 'q'),
    ('nb_peg', 'nb_peg_rep12', 'a{1,2} with skip; all strings<=8 chars', 'q'),
    ('nb_peg', 'nb_peg_rep_choice', '(a | b ~ a)+; all strings<=8 chars', 'q'),
    ('nb_peg', 'nb_peg_push_pop', 'PUSH(a|b) ~ (POP ~ b | PEEK ~ DROP); all strings<=8 chars over {a,b}', 'q'),
    ('nb_peg', 'nb_peg_pred', 'PUSH(a){0,2} ~ &POP ~ !b ~ PEEK_ALL; all strings<=8 chars over {a,b}', 'q'),
    ('nb_peg', 'nb_peg_slice', 'PUSH(a|b){0,3} ~ PEEK[0..1] ~ PEEK[-1..] ~ POP_ALL; all strings<=9 chars over {a,b}', 'q'),
    ('nb_peg', 'nb_peg_leaf', 'insensitive ~ (range | ANY) ~ NEWLINE? ~ skip-until; all strings<=5 chars over 8 chars incl. CR LF 2- and 4-byte', 'q'),
    ('nb_peg', 'nb_peg_nest', 'SOI ~ (a{1,2} ~ b?)* ~ EOI with skips; all strings<=8 chars', 'q'),
    ('nb_peg', 'nb_peg_bal', 'PUSH(a) ~ ((DROP ~ PUSH(b) ~ c) | b) ~ POP; all strings<=7 chars over {a,b,c}', 'q'),
    ('nb_peg', 'nb_peg_optpush', 'PUSH(a) ~ (PUSH(a) ~ b)? ~ a? ~ POP; all strings<=7 chars over {a,b,c}', 'q'),
    ('nb_peg', 'nb_peg_reppush', '(PUSH(a) ~ b){1,3} ~ PEEK_ALL; all strings<=8 chars over {a,b,c}', 'q'),
    ('nb_peg', 'nb_peg_repbal', 'PUSH(a) ~ (DROP ~ PUSH(b) ~ c)* ~ b? ~ POP; all strings<=8 chars over {a,b,c}', 'q'),
    ('nb_peg', 'nb_peg_predmut', 'PUSH(a) ~ &(POP ~ PUSH(b)) ~ !(DROP ~ c) ~ POP; all strings<=6 chars over {a,b,c}', 'q'),
    ('nb_peg', 'nb_peg_repminfail', '((PUSH(a) ~ (PUSH(b) ~ c){2,}) | a) ~ PEEK_ALL; all strings<=8 chars over {a,b,c}', 'q'),
    ('nb_peg', 'nb_peg_repmmfail', '((PUSH(a) ~ (PUSH(b) ~ c){2,3}) | a) ~ PEEK_ALL; all strings<=8 chars over {a,b,c}', 'q'),
    ('nb_peg', 'nb_peg_repnoprogress', 'PUSH(a) ~ PUSH(a)? ~ DROP{2} ~ b ~ PEEK_ALL (an element that consumes no input); all strings<=7 chars over {a,b,c}', 'q'),
    ('nb_peg', 'nb_peg_repnullable', '(a*){2,3} ~ PUSH(b)? ~ DROP{1,2} (an element that may match the empty string); all strings<=7 chars over {a,b,c}', 'q'),
    ('nb_peg', 'nb_peg_skippush', 'implicit skip rule that pushes before it can fail: skip = (PUSH(b) ~ c)*; PUSH(a) ~ a ~ PEEK_ALL with that skip; all strings<=7 chars over {a,b,c}', 'q'),
    ('nb_peg', 'nb_peg_repasskip', 'a bounded repetition as the skip node (RepeatMinMax<_,0,1> NeverFailedTypedNode impl): a ~ b ~ a; all strings<=8 chars over {a,b,blank}', 'q'),
    ('nb_peg', 'nb_peg_sub', 'seven grammars (sequences, repetitions, stack, slices) on every sub-range of all strings<=6 chars over {a,b,blank}, given as Span sub-inputs', 'q'),
]
NB_PEG = [(t[0], t[1], t[2], 'Q') for t in NB_PEG] + [(t[0], t[1], t[2] + ' — bound raised by 3 characters', 't', {'VERIF_NB_EXTRA': '3'}) for t in NB_PEG]
NB_PEG_STACK = [t for t in NB_PEG if t[1] in ('nb_peg_push_pop', 'nb_peg_pred', 'nb_peg_rep_choice', 'nb_peg_slice', 'nb_peg_bal', 'nb_peg_optpush', 'nb_peg_reppush', 'nb_peg_repbal', 'nb_peg_predmut', 'nb_peg_repminfail', 'nb_peg_repmmfail', 'nb_peg_repnoprogress', 'nb_peg_repnullable', 'nb_peg_skippush')]
NB_SLICES = ('nb_slices', 'nb_slices', 'all stacks of depth<=4 over {a,bb} x all PEEK[a..b], PEEK[a..] with a,b in -6..=6 x all inputs<=5 chars', 'q')
NB_PEG_D1 = ('nb_peg', 'nb_peg_d1', 'PUSH(a) ~ ((POP? ~ b) | PEEK); all strings<=6 chars over {a,b}', 'q')
NB_GEN = ('derive:nb_gen', 'nb_gen_vs_pest', 'generated parser vs pest: 40 rules (all kinds/operators, built-ins, stack slices) x all strings<=5 chars over 3 alphabets', 'Q')
NB_GEN_T = ('derive:nb_gen', 'nb_gen_vs_pest', 'generated parser vs pest: 40 rules x all strings<=7 chars over 3 alphabets', 't', {'VERIF_NB_L': '7'})
NB_GEN_SUB_REL = ('derive:nb_gen', 'nb_gen_subinput@release', 'RELEASE profile (debug assertions off, unchecked slicing): 22 entry rules x all strings<=4 chars x all sub-ranges', 'q', {'VERIF_PROFILE': 'release'})
NB_GEN_REL = ('derive:nb_gen', 'nb_gen_vs_pest@release', 'RELEASE profile: 40 rules x all strings<=5 chars over 3 alphabets', 'q', {'VERIF_PROFILE': 'release'})
NB_INPUT_REL = ('nb_input', 'nb_skip_contract@release', 'RELEASE profile: skip / Position::next on all strings<=4 chars x all spans', 'q', {'VERIF_PROFILE': 'release'})
NB_GEN_SKIPTOK = ('derive:nb_gen', 'nb_gen_skip_tokens', 'generated parser vs pest, grammar with NON-silent WHITESPACE/COMMENT: 5 rules x all strings<=6 tokens over 2 alphabets', 'q')
NB_GEN_SKIP_ONLY = ('derive:nb_gen', 'nb_gen_skip_only', 'generated parser vs pest, grammars defining ONLY a non-silent WHITESPACE / ONLY a non-silent COMMENT (own generator arms): 4 rules each x all strings<=7 chars over {a,b,comma,blank}', 'q')
NB_GEN_UNOPT = ('derive:nb_gen', 'nb_gen_unoptimized', 'parser generated with #[pest_optimizer = false] (second generator path, graph/rule.rs) vs pest: 16 rules (atomicity nesting, skips, stack) x all strings<=5 chars over 2 alphabets', 'q')
NB_GEN_UNOPT_PLUS = ('derive:nb_gen', 'nb_gen_unopt_plus', 'a+ generated with #[pest_optimizer = false] vs pest under implicit skipping: all strings<=5 chars over {a,blank} (finding D8)', 'q')
NB_GEN_NO_NORMAL = ('derive:nb_gen', 'nb_gen_no_normal_rule', 'generated parser vs pest on a grammar without any plain normal rule (only _ @ $ ! kinds): 4 rules x all strings<=6 tokens', 'q')
NB_GEN_COMMENT_INNER = ('derive:nb_gen', 'nb_gen_comment_inner', 'non-silent COMMENT mentioning a non-silent rule: all strings<=5 tokens', 'q')
NB_BUILTIN_ALT = ('nb_peg', 'nb_builtin_alternatives', 'built-in ASCII rules on every ASCII character: accepted set, reported character / alternative vs the definitions in pest', 'q')
NB_LEAF = ('nb_peg', 'nb_leaf_contents', 'leaf contents on all strings<=3 chars over 10 characters (1-4 bytes, CR, LF)', 'q')
NB_GEN_SUB = ('derive:nb_gen', 'nb_gen_subinput', 'generated parser: 22 entry rules x all strings<=4 chars over 2 alphabets x all sub-ranges (Span/Position vs fresh copy)', 'Q')
NB_MATCHERS = ('nb_input', 'nb_matchers', 'every default matcher on all strings<=3 chars x all spans x 3 cursors; match_string / match_insensitive on all 128x128 ASCII pairs', 'q')
NB_GEN_SUB_T = ('derive:nb_gen', 'nb_gen_subinput', 'generated parser: 22 entry rules x all strings<=6 chars x all sub-ranges', 't', {'VERIF_NB_L': '6'})
K_PEG = [
    ('k_peg', 'peg_seq3_skip', 'bounded', 'q', 'a ~ b ~ a with skip; symbolic input <=5 chars over {a,b,space}; unwind 7'),
    ('k_peg', 'peg_seq2_atomic', 'bounded', 'q', '@{a ~ b}; symbolic input <=4 chars; unwind 6'),
    ('k_peg', 'peg_rep_1_2_skip', 'bounded', 'q', 'a{1,2} with skip; symbolic input <=5 chars; unwind 7'),
]

TECH = 'contract-based deductive verification: Verus on functions extracted mechanically from /repo each run (trait contracts over a PEG denotation), Kani function contracts / loop-free (complete) harnesses; guards on every run: expected-obligation lists, shape profiles, a vacuity pass; bounded native exhaustive enumerations and Kani-bounded harnesses are labelled stand-ins and never counted as proved'
NOTE_COMMON = ('Trusts Verus/Z3, Kani/CBMC, the extractor and rewrite table R1-R11 (diff emitted per run; R1 erases the error tracker, R9 turns array::from_fn into its loop, R10 instantiates a generic iterator / range parameter per call-site type, R11 removes a `continue`), '
               'the model of pest::Stack (cross-checked against the real type by a bounded native enumeration; false for nested snapshots: known finding D1), vstd specs. '
               'Generator/derive crates are outside the verified set. ')

PROPS = {
    'C01': {
        'level': 'proof',
        'level_text': 'Runtime half only: every combinator of the runtime crate is proved (Verus, all inputs, all stacks, all child node types) to compute the PEG denotation `sem` taken from the property statement: leaves, optional, pair, array, choice 2..12, predicates, PUSH/PEEK/POP/DROP, both paths of sequences 2..12 and of all repetitions (the parse paths after the mechanical rewrite R9 of core::array::from_fn(|_| ..) into the loop it stands for), the _ALL / slice stack nodes, full-input wrappers, the rule-kind macro arms. The generator translation (grammar -> type tree) is not covered.',
        'level_note': NOTE_COMMON + 'That `sem` coincides with pest where pest is defined is an assumption (textbook PEG semantics); generator half n/a.',
        'technique': TECH,
        'verus': ['idx', 'comb', 'choice', 'nodes', 'slices', 'slicefn', 'seqchk', 'seqpar', 'repchk', 'reppar', 'wrappers', 'leaf', 'input'],
        'expanded': True,
        'kani': K_PEG,
        'native': NB_PEG + [NB_PEG_D1, NB_GEN, NB_GEN_T, NB_GEN_SKIPTOK, NB_GEN_SKIP_ONLY, NB_GEN_UNOPT, NB_GEN_NO_NORMAL, NB_GEN_UNOPT_PLUS, NB_MATCHERS, NB_SLICES],
        'assumptions': ['sem (PEG denotation with full backtracking, failing empty-stack operations) is pest\'s behaviour where pest is defined',
                        'generator translation of the grammar into the combinator type tree is not verified (DESIGN.md §6)'],
    },
    'C02': {
        'level': 'other',
        'level_text': 'Decided by a bounded stand-in. The pair-tree code (for_self_or_each_child, children, as_token) is callback style (FnMut closures pushing into captured Vecs), which Verus does not support, and CBMC on Vec-of-Vec token trees is intractable; no contract on the token stream is discharged. What Verus does prove, as the half of the property that contracts reach, is which nodes a composite node HOLDS after a successful parse (node_ok of Option: Some exactly when the inner expression matched; Choice2..12: the first matching alternative; Seq2..12 fields; repetition units) — the tokens are read off those nodes. The contract "as_thin_token() equals the pest tree minus descendants of atomic/compound-atomic tokens" is checked by bounded differential enumeration against pest itself on a generated parser covering every rule kind and operator.',
        'level_note': 'pest (pest_derive 2.7.14) on the same grammar is the oracle, as the property states. One grammar of 22 rules; nothing beyond the bound or other grammars.',
        'technique': 'contract (tree equals pest tree minus documented pruning) checked by bounded differential enumeration on generated parsers; no deductive proof within reach (FnMut callback style)',
        'verus': ['comb', 'choice', 'seqpar', 'reppar'],
        'expanded': True,
        'kani': [],
        'native': [NB_GEN, NB_GEN_T, NB_GEN_SKIPTOK, NB_GEN_SKIP_ONLY, NB_GEN_UNOPT, NB_GEN_NO_NORMAL, NB_GEN_COMMENT_INNER],
        'explanation': 'Every (rule, input) pair within the bound is parsed by the pest-generated and the pest-typed-generated parser; trees are compared after pruning atomic tokens in the pest tree. obligations/discharged are zero: nothing is proved beyond the bound.',
        'assumptions': ['pest is the reference'],
    },
    'C03': {
        'level': 'proof',
        'level_text': 'Both methods of the node trait carry the same postcondition over the same `sem`; Verus proves each extracted try_parse_partial_with and try_check_partial_with body against it (optional, pair, array, choice 2..12, predicates, stack nodes, leaves) and the check/parse full-input wrappers against one `full_ok` predicate, so verdict, offset and stack agree for all inputs. For sequences 2..12 and all repetitions both paths are proved against the same denotation (units seqchk/seqpar, repchk/reppar). Identity of the error report is outside Verus (R1 erases the tracker) and is a bounded stand-in (nb_gen: identical error text on every enumerated input, also on Span/Position sub-inputs).',
        'level_note': NOTE_COMMON + 'Error-report identity is only bounded.',
        'technique': TECH,
        'verus': ['comb', 'choice', 'nodes', 'slices', 'slicefn', 'seqchk', 'seqpar', 'repchk', 'reppar', 'wrappers', 'leaf', 'rules'],
        'expanded': True,
        'kani': K_PEG,
        'native': NB_PEG + [NB_GEN, NB_GEN_T, NB_GEN_SKIPTOK, NB_GEN_SKIP_ONLY, NB_GEN_UNOPT, NB_GEN_NO_NORMAL, NB_GEN_SUB, NB_GEN_SUB_T],
        'assumptions': ['R1 (tracker erasure) is behaviour-preserving for match/offset/stack results'],
    },
    'C04': {
        'level': 'proof',
        'level_text': 'Verus proves rule::parse/check/parse_without_ignore/check_without_ignore (verbatim bodies minus tracker) for every rule node type S and skip type IGN: success iff S matches a prefix and the position after IGN (none for the atomic pair) is the end of input; check == parse.is_some(). On the expansion by rustc of the rule-kind macros over abstract inner/skip nodes it proves that impl_parse! selects the non-skipping pair exactly for atomic, compound-atomic and EOI rules, and that ParsableTypedNode::try_parse / try_check / try_parse_partial / try_check_partial start from a fresh empty stack and return Ok exactly when the full (resp. prefix) match of the rule holds.',
        'level_note': NOTE_COMMON + 'TypedParser::{try_parse,try_check} (one-line delegations) and "the tree returned is the one the prefix parse returns" are covered only by the bounded differential enumeration.',
        'technique': TECH,
        'verus': ['wrappers', 'rules'],
        'expanded': True,
        'kani': [],
        'native': [NB_GEN, NB_GEN_T, NB_GEN_SUB, NB_GEN_SUB_T, NB_GEN_SUB_REL],
        'assumptions': [],
    },
    'C05': {
        'level': 'proof',
        'level_text': 'Verus proves restore_on_none (verbatim): on None the stack contents equal those before the attempt, snapshots balanced; and every caller (Option, Choice2..12 both paths, repetition check and parse loops) against a `sem` in which each alternative / iteration is evaluated on the state before the failed attempt; predicates restore on both outcomes. All relative to the Stack model, which Kani checks against the real pest::Stack for operation sequences up to a bound.',
        'level_note': NOTE_COMMON + 'Relative to the Stack model (known finding D1 for nested snapshots).',
        'technique': TECH,
        'verus': ['comb', 'choice', 'nodes', 'repchk', 'reppar'],
        'expanded': True,
        'kani': [],
        'native': [
            ('nb_stackmodel', 'nb_stack_depth1', 'all op sequences of length<=8 over {push(a),push(b),pop,snapshot,clear_snapshot,restore}, snapshot nesting depth<=1', 'q'),
            ('nb_stackmodel', 'nb_stack_nested', 'all op sequences of length<=7, arbitrary nesting', 'q'),
        ] + NB_PEG_STACK + [NB_PEG_D1],
        'assumptions': ['pest::Stack behaves as the snapshot-stack model (R4); checked within a bound by k_stackmodel'],
    },
    'C06': {
        'level': 'proof',
        'level_text': 'Verus proves, for all arguments, that the real normalize_index/constrain_idxs compute the index normalisation the property states (negative from the top, out of range = None, no panic/overflow); Kani re-proves it loop-free over the full i32 x Option<i32> x len domain and checks a Kani function contract. Verus proves PUSH/PEEK/POP/DROP against their denotation incl. failure (not panic) on an empty stack, and the slice nodes: stack_slice (out-of-range bound = failure, empty or inverted range = empty match, and the slice index expression is a proved precondition, so no panic), peek_spans, PEEK_ALL / POP_ALL (whole stack top to bottom, POP_ALL leaves it empty), PeekSlice1/2 (entries a..b from the bottom entry of the slice), both paths (units slices, slicefn). nb_slices and the stack grammars of nb_peg remain as bounded cross-checks.',
        'level_note': NOTE_COMMON + 'Assumes stack length <= i32::MAX (axiom_stack_depth_fits_i32); assumed specification of Option::map_or; pest::Stack indexing by a range is part of the Stack model (cross-checked by nb_stackmodel on every sub-range); peek_spans is instantiated per call-site iterator type (R10) and S.iter().rev() is outlined (verified in slicefn, contract-only in slices).',
        'technique': TECH,
        'verus': ['idx', 'nodes', 'slices', 'slicefn'],
        'expanded': False,
        'kani': [
            ('k_idx', 'idx_constrain_full', 'complete', 'q', 'all i32 x Option<i32> x len<=i32::MAX'),
            ('k_idx', 'idx_constrain_contract', 'contract', 'q', 'kani contract on constrain_idxs'),
        ],
        'native': NB_PEG_STACK + [NB_SLICES, ('nb_stackmodel', 'nb_stack_depth1', 'Stack model incl. indexing by every sub-range: all op sequences of length<=8, snapshot nesting depth<=1', 'q')],
        'assumptions': [
            'stack length <= i32::MAX (precondition of the index arithmetic; `len as i32` wraps beyond it — D6 in DESIGN.md)',
        ],
    },
    'C07': {
        'level': 'proof',
        'level_text': 'Skip positions (claimed half): Verus proves for all SKIP, skip node types and element types that both paths of Seq2..12 skip exactly SKIP times before every element but the first and never after the last, that a repetition unit skips only for i > 0 and a skip before a failing iteration is undone, and that the full-input wrappers skip only in the non-atomic pair. Inheritance of atomicity (which SKIP/INHERITED the generator passes) is not applicable.',
        'level_note': NOTE_COMMON + 'Generator half (which SKIP / INHERITED arguments are passed) is a bounded stand-in (nb_gen), not a contract.',
        'technique': TECH,
        'verus': ['seqchk', 'seqpar', 'repchk', 'reppar', 'wrappers', 'rules'],
        'expanded': True,
        'kani': K_PEG,
        'native': NB_PEG + [NB_GEN, NB_GEN_T, NB_GEN_SKIPTOK, NB_GEN_SKIP_ONLY, NB_GEN_UNOPT, NB_GEN_NO_NORMAL, NB_GEN_UNOPT_PLUS],
        'assumptions': ['which of 0 / 1 / INHERITED reaches each rule reference is decided by generator code outside the verified set'],
    },
    'C08': {
        'level': 'proof',
        'level_text': 'Verus proves the default methods of trait Input (match_string, match_insensitive, match_range, match_char_by, next, at_start, at_end, span, as_position) and the three implementations (Position, SubInput1, SubInput2: byte_offset, input, get, cursor, start, end) and the AsInput conversions against contracts in which result and advance are functions of rest(ctx, off) = bytes[off..end] alone, with SOI/EOI decided by off == start / off == end (the SOI and EOI node types are proved against exactly that in unit nodes, also when a cursor is converted with as_position(), whose result is judged against the bounds 0 and len of the whole string); so nothing at or beyond the span end can influence a matcher. Input::skip and chars are proved too (vstd Chars model; UTF-8 boundary lemmas proved from vstd definitions), and so is skip_until (after rewrite R11, which removes the `continue`): it stops at the least offset, on a character boundary, at which a needle is a prefix of the REMAINING input bytes[k..end], else at end — the obligation that fails for the defect D2 repaired in /repo. The end-to-end statement (Span/Position vs fresh copy on generated rules) is a bounded stand-in.',
        'level_note': NOTE_COMMON + 'Assumes the specs of the std shims (R3) and that the length of a str fits usize; ptr::eq on inputs modelled as value equality. The lifting from per-matcher contracts to every node type is an argument, not a proved lemma.',
        'technique': TECH,
        'verus': ['input', 'leaf', 'nodes'],
        'expanded': False,
        'kani': [],
        'native': [
            NB_GEN_SUB, NB_GEN_SUB_T,
            ('nb_input', 'nb_skip_until_contract', 'all strings<=4 chars over {a,*,/,é,€,😀} x all spans x 3 cursors x 5 needle sets', 'q'),
            ('nb_input', 'nb_skip_contract', 'all strings<=4 chars x all spans x n<6', 'q'),
            NB_MATCHERS,
            ('nb_input', 'nb_matchers@release', 'RELEASE profile: every default matcher on all strings<=3 chars x all spans x 3 cursors', 'q', {'VERIF_PROFILE': 'release'}),
            ('nb_input', 'nb_shims', 'std shims + UTF-8 lemmas on all strings<=3 chars', 'q'),
        ],
        'assumptions': ['contract of Input::skip_until is assumed in Verus and checked only within the stated bound',
                        'axiom: a str length fits usize; two leaf lemmas (newline literals as bytes, none else) admitted'],
    },
    'C09': {
        'level': 'proof',
        'level_text': 'The representation invariant (start <= off <= end <= len, all three on UTF-8 boundaries) is a pre- and postcondition of every Input method and of every node contract; Verus proves it preserved by all default methods, by the three Input impls (both the checked and the unchecked slicing branch: cfg!(debug_assertions) is an arbitrary boolean), by Position/Span::new_unchecked call sites (their debug assertions become preconditions) and by every combinator; usize additions on the cursor are proved not to overflow. Absence of panics in parse paths of sequences/repetitions and in error rendering is a bounded stand-in.',
        'level_note': NOTE_COMMON + 'Same shim/UTF-8 assumptions as C08.',
        'technique': TECH,
        'verus': ['input', 'leaf', 'nodes', 'comb'],
        'expanded': False,
        'kani': [],
        'native': [
            NB_GEN_SUB_REL, NB_GEN_REL, NB_INPUT_REL,
            NB_GEN_SUB, NB_GEN_SUB_T,
            NB_GEN, NB_GEN_T,
            ('nb_input', 'nb_skip_contract', 'all strings<=4 chars x all spans x n<6', 'q'),
            NB_MATCHERS,
            ('nb_input', 'nb_matchers@release', 'RELEASE profile: every default matcher on all strings<=3 chars x all spans x 3 cursors', 'q', {'VERIF_PROFILE': 'release'}),
            ('nb_input', 'nb_shims', 'std shims + UTF-8 lemmas on all strings<=3 chars', 'q'),
        ],
        'assumptions': ['unsafe get_unchecked is given the same precondition as checked slicing (R3 shim)', 'release profile is exercised only by the bounded enumerations (Verus treats cfg!(debug_assertions) as an arbitrary boolean)'],
    },
    'C10': {
        'level': 'proof',
        'level_text': 'Verus proves on the real Tracker (bodies verbatim): prepare implements the furthest-position rule (tracked position = maximum seen, attempts dropped exactly when a further position arrives, never moves backwards); the reporting entry points (empty_stack, out_of_bound, repeat_too_many_times) and record_during_with keep the position monotone and inside the same input, keep the rule-frame stack balanced and the polarity unchanged; record (verbatim, with same_with_last) implements the polarity rule: a rule is recorded exactly when its outcome contradicts the current polarity and its position is (now) the furthest one — a failure under positive polarity goes to the EXPECTED list, a success under negative polarity to the UNEXPECTED list of the entry keyed by the enclosing rule frame, the other list untouched, no duplicate of the last element; during/positive_during/negative_during and record_during_with run their closure exactly once on the tracker and return its result unchanged (this is also the soundness lemma of rewrite R1). Positions come from Inputs satisfying the boundary invariant (C09). Truthfulness of the listed rules (every expected rule fails / every unexpected rule matches at the reported location), rendering (String/format!, BTreeMap) and determinism are bounded stand-ins (enumeration on generated parsers).',
        'level_note': NOTE_COMMON + 'The attempts map (BTreeMap) is opaque (uninterpreted entry_view / entry_key, an axiom for the empty map): clear and get_entry are contract-only stubs (assumed); Eq on rule values is a shim. Position::cmp shim. "Every listed rule really fails/matches there" is not decided by any contract, only by the bounded enumeration.',
        'technique': TECH,
        'verus': ['tracker', 'wrappers'],
        'expanded': False,
        'kani': [],
        'native': [NB_GEN, NB_GEN_T, NB_GEN_SKIPTOK, NB_GEN_SKIP_ONLY, NB_GEN_UNOPT, NB_GEN_NO_NORMAL, NB_GEN_SUB],
        'assumptions': ['contracts of Tracker::clear / get_entry / record are assumed (BTreeMap has no vstd model)',
                        'truthfulness of expected/unexpected rule lists is decided only within the bound of nb_gen, with rules re-run in the default context'],
    },
    'C12': {
        'level': 'other',
        'level_text': 'Bounded stand-in only: the contract "line_col / line_of return what pest::Position returns" is checked by exhaustive native enumeration of every string of at most 6 (quick) / 7 (thorough) characters over {LF, CR, 1-, 2-, 3-, 4-byte character} and every boundary offset — the quantifier the property itself names. The functions use iterator adapters (peekable, char_indices().rev().skip_while().find()) that Verus has no specification for, and CBMC on them is intractable beyond L=3; no unbounded proof is claimed.',
        'level_note': 'pest 2.7.14 compiled into the same test binary is the oracle (that is the property). Exhaustive within the bound, nothing beyond it.',
        'technique': 'contract (result equals pest::Position) checked by bounded exhaustive enumeration on the real code; no deductive proof within reach (iterator adapters)',
        'verus': [],
        'expanded': False,
        'kani': [],
        'native': [
            ('nb_linecol', 'nb_linecol', 'all strings<=6 chars over {LF,CR,a,é,€,😀} x all boundary offsets', 'Q'),
            ('nb_linecol', 'nb_linecol', 'all strings<=7 chars over {LF,CR,a,é,€,😀} x all boundary offsets', 't', {'VERIF_NB_L': '7'}),
            ('nb_span', 'nb_span', 'positions handed out by Span::split / start_pos / end_pos (line_col, line_of vs pest) on all strings<=4 chars over {LF,CR,a,é,€} x all spans', 'q'),
        ],
        'explanation': 'Every (string, offset) pair within the bound is executed on the real Position::line_col/line_of and compared with pest::Position; obligations/discharged are zero because nothing is proved beyond the bound.',
        'assumptions': ['pest::Position (2.7.14) is the reference, as the property states'],
    },
    'C13': {
        'level': 'proof',
        'level_text': 'Verus proves for all inputs: Span::new returns Some exactly for in-range boundary pairs (and the span it returns), merge_spans succeeds exactly for overlapping or adjacent spans of one input and yields their hull, Position::new/span and the unchecked constructors establish the span invariant, start_pos / end_pos / split return the two ends, and Span::get — instantiated at each of the six range forms (R10) — returns Some exactly when the requested range lies within the text of the span on character boundaries, and then that range shifted by the start of the span (requires: no overflow of the +1 on an inclusive bound). Agreement of lines and lines_span with pest::Span, and of all the above with pest itself, is a bounded stand-in (exhaustive native enumeration up to 4/6 characters).',
        'level_note': NOTE_COMMON + 'str::get / cmp::min,max shims (R3); UTF-8 boundary lemmas proved from vstd definitions; lines/lines_span only bounded; an inclusive bound of usize::MAX (overflow in the source, same as in pest) is excluded by precondition.',
        'technique': TECH,
        'verus': ['spanpos'],
        'expanded': False,
        'kani': [],
        'native': [
            ('nb_span', 'nb_span', 'all strings<=4 chars over {LF,CR,a,é,€} x all index pairs / spans / sub-ranges / span pairs', 'Q'),
            ('nb_span', 'nb_span', 'all strings<=6 chars over {LF,CR,a,é,€} x all index pairs / spans / sub-ranges / span pairs', 't', {'VERIF_NB_L': '6'}),
        ],
        'assumptions': ['pest::Span (2.7.14) is the reference for the bounded part'],
    },
    'C14': {
        'level': 'other',
        'level_text': 'Verus proves only ceil_log10 (the width of the line-number column) for all usize. Everything else in the formatter walks lines().enumerate().peekable() and writes through core::fmt, outside Verus; CBMC on String/format! is intractable. The statement of the property (no panic; correct 1-based numbers and visualised text on the numbered rows; first/last row = line holding the first/last character, the last line at end of input; markers on the display cells of those characters) is checked by bounded exhaustive enumeration through the public Display impls on every string of at most 4 (quick) / 5 (thorough) characters over {LF, CR, TAB, a, wide CJK, 2-byte letter} incl. the empty string, every span and position.',
        'level_note': 'Default FormatOption only (FormatOption is not nameable outside the crate). unicode_width::width_cjk is the display-cell oracle, as in the code.',
        'technique': 'Verus contract on ceil_log10; rendering contract checked by bounded exhaustive enumeration on the real code (String/fmt code outside the verifiers)',
        'verus': ['fmt'],
        'expanded': False,
        'kani': [],
        'native': [
            ('nb_fmt', 'nb_fmt_span', 'all strings<=4 chars over {LF,CR,TAB,a,中,é} incl. empty x all spans', 'Q'),
            ('nb_fmt', 'nb_fmt_pos', 'all strings<=4 chars over {LF,CR,TAB,a,中,é} incl. empty x all positions', 'Q'),
            ('nb_fmt', 'nb_fmt_lines', 'all strings<=10 chars over {LF,a} x all spans and positions (five-line and elided renderings anywhere)', 'Q'),
            ('nb_fmt', 'nb_fmt_lines', 'all strings<=13 chars over {LF,a} x all spans and positions', 't', {'VERIF_NB_L2': '13'}),
            ('nb_fmt', 'nb_fmt_span', 'all strings<=5 chars x all spans', 't', {'VERIF_NB_L': '5'}),
            ('nb_fmt', 'nb_fmt_pos', 'all strings<=5 chars x all positions', 't', {'VERIF_NB_L': '5'}),
        ],
        'explanation': 'Every (string, span) and (string, position) within the bound is rendered by the real Display impl; the output is parsed and compared with the property statement. One Verus obligation (ceil_log10) is discharged; the rest is bounded.',
        'assumptions': ['spans across more than five lines are reached only in the thorough tier (L=5 gives at most 6 lines)'],
    },
    'C15': {
        'level': 'other',
        'level_text': 'Bounded stand-in only (VecDeque / FnMut callback code is outside Verus; token trees are too heavy for CBMC): on every successful parse of 13 content-carrying rules of a generated parser, for all inputs up to 5 characters, pre-order iteration equals the recursive definition with depths, level-order visits every token once level by level, format_as_tree renders the pre-order with four spaces per level and text on leaves, children() are the direct child tokens, spans are nested and ordered.',
        'level_note': 'One grammar; bounded inputs; nothing proved.',
        'technique': 'traversal contracts checked by bounded enumeration on real parse results; no deductive proof within reach (VecDeque, FnMut callbacks)',
        'verus': [],
        'expanded': False,
        'kani': [],
        'native': [NB_GEN, NB_GEN_T, NB_GEN_SKIPTOK, NB_GEN_SKIP_ONLY, NB_GEN_UNOPT, NB_GEN_NO_NORMAL],
        'explanation': 'The traversal helpers are run on the real tree of every accepted (rule, input) pair within the bound and compared with a recursive reference traversal written in the test.',
        'assumptions': [],
    },
    'C17': {
        'level': 'proof',
        'level_text': 'First-match-wins and leaf contents are Verus postconditions for all inputs and child types: the variant a Choice2..12 parse builds is the first alternative whose denotation matches (node_ok), CharRange/ANY expose the first scalar of the remaining input, Insens the consumed spelling, NEWLINE the alternative consumed (CRLF preferred), PEEK/POP/Skip/SkipChar the consumed span. Accessors are loop-free and proved complete by Kani over full-domain payloads for every arity 2..16 (13..16 instantiated with the exported choices!/seq! macros): exactly one _k() is Some and it is the stored value; the if_then/else_if/else_then, reference and consume chains run exactly closure k; get_matched/as_ref/get_all/into_matched/into_all return the fields in grammar order. Sequence and repetition contents are Verus postconditions too (node_ok of Seq2..12: field k holds the node element k built where it matched; of RepeatMin/RepeatMinMax/AtomicRepeat: exactly the matched units, in order, each built where it matched). Repetition iterators (iter_matched etc.) are a bounded stand-in; match_choices! is a generator proc macro (n/a).',
        'level_note': NOTE_COMMON + 'Payload parametricity: accessor bodies never inspect the payload (checked with u8 payloads). match_choices! not covered.',
        'technique': TECH,
        'verus': ['comb', 'choice', 'leaf', 'nodes', 'seqpar', 'reppar', 'input'],
        'expanded': True,
        'kani': [
            ('k_acc', 'acc_choice2', 'complete', 'q', 'choice accessors and helper chains, arity 2, all alternative indices x all u8 payloads (loop-free)'),
            ('k_acc', 'acc_choice3', 'complete', 'q', 'choice accessors and helper chains, arity 3, all alternative indices x all u8 payloads (loop-free)'),
            ('k_acc', 'acc_choice4', 'complete', 't', 'choice accessors and helper chains, arity 4, all alternative indices x all u8 payloads (loop-free)'),
            ('k_acc', 'acc_choice5', 'complete', 't', 'choice accessors and helper chains, arity 5, all alternative indices x all u8 payloads (loop-free)'),
            ('k_acc', 'acc_choice6', 'complete', 't', 'choice accessors and helper chains, arity 6, all alternative indices x all u8 payloads (loop-free)'),
            ('k_acc', 'acc_choice7', 'complete', 'q', 'choice accessors and helper chains, arity 7, all alternative indices x all u8 payloads (loop-free)'),
            ('k_acc', 'acc_choice8', 'complete', 't', 'choice accessors and helper chains, arity 8, all alternative indices x all u8 payloads (loop-free)'),
            ('k_acc', 'acc_choice9', 'complete', 't', 'choice accessors and helper chains, arity 9, all alternative indices x all u8 payloads (loop-free)'),
            ('k_acc', 'acc_choice10', 'complete', 't', 'choice accessors and helper chains, arity 10, all alternative indices x all u8 payloads (loop-free)'),
            ('k_acc', 'acc_choice11', 'complete', 't', 'choice accessors and helper chains, arity 11, all alternative indices x all u8 payloads (loop-free)'),
            ('k_acc', 'acc_choice12', 'complete', 'q', 'choice accessors and helper chains, arity 12, all alternative indices x all u8 payloads (loop-free)'),
            ('k_acc', 'acc_choice13', 'complete', 'q', 'choice accessors and helper chains, arity 13, all alternative indices x all u8 payloads (loop-free)'),
            ('k_acc', 'acc_choice14', 'complete', 't', 'choice accessors and helper chains, arity 14, all alternative indices x all u8 payloads (loop-free)'),
            ('k_acc', 'acc_choice15', 'complete', 't', 'choice accessors and helper chains, arity 15, all alternative indices x all u8 payloads (loop-free)'),
            ('k_acc', 'acc_choice16', 'complete', 'q', 'choice accessors and helper chains, arity 16, all alternative indices x all u8 payloads (loop-free)'),
            ('k_acc', 'acc_seq2', 'complete', 'q', 'sequence accessors, arity 2, all alternative indices x all u8 payloads (loop-free)'),
            ('k_acc', 'acc_seq3', 'complete', 'q', 'sequence accessors, arity 3, all alternative indices x all u8 payloads (loop-free)'),
            ('k_acc', 'acc_seq4', 'complete', 't', 'sequence accessors, arity 4, all alternative indices x all u8 payloads (loop-free)'),
            ('k_acc', 'acc_seq5', 'complete', 't', 'sequence accessors, arity 5, all alternative indices x all u8 payloads (loop-free)'),
            ('k_acc', 'acc_seq6', 'complete', 't', 'sequence accessors, arity 6, all alternative indices x all u8 payloads (loop-free)'),
            ('k_acc', 'acc_seq7', 'complete', 'q', 'sequence accessors, arity 7, all alternative indices x all u8 payloads (loop-free)'),
            ('k_acc', 'acc_seq8', 'complete', 't', 'sequence accessors, arity 8, all alternative indices x all u8 payloads (loop-free)'),
            ('k_acc', 'acc_seq9', 'complete', 't', 'sequence accessors, arity 9, all alternative indices x all u8 payloads (loop-free)'),
            ('k_acc', 'acc_seq10', 'complete', 't', 'sequence accessors, arity 10, all alternative indices x all u8 payloads (loop-free)'),
            ('k_acc', 'acc_seq11', 'complete', 't', 'sequence accessors, arity 11, all alternative indices x all u8 payloads (loop-free)'),
            ('k_acc', 'acc_seq12', 'complete', 'q', 'sequence accessors, arity 12, all alternative indices x all u8 payloads (loop-free)'),
            ('k_acc', 'acc_seq13', 'complete', 'q', 'sequence accessors, arity 13, all alternative indices x all u8 payloads (loop-free)'),
            ('k_acc', 'acc_seq14', 'complete', 't', 'sequence accessors, arity 14, all alternative indices x all u8 payloads (loop-free)'),
            ('k_acc', 'acc_seq15', 'complete', 't', 'sequence accessors, arity 15, all alternative indices x all u8 payloads (loop-free)'),
            ('k_acc', 'acc_seq16', 'complete', 'q', 'sequence accessors, arity 16, all alternative indices x all u8 payloads (loop-free)'),
        ],
        'native': [
            ('nb_peg', 'nb_acc_rep', 'iter_matched / into_iter_matched / iter_all of RepMin and RepMinMax on all strings<=7 chars over {a,b,space}', 'q'),
            NB_LEAF, NB_BUILTIN_ALT,
        ],
        'assumptions': ['match_choices! (generator crate proc macro) is outside the verified set'],
    },
    'C18': {
        'level': 'proof',
        'level_text': 'Kani proves, loop-free over all u8 field values for every arity 2..16, that the hand-written PartialEq of sequences is equality of all fields, that Hash writes every field in order (so equal values hash equally and every field participates), and that clone() == self with equal hash; Span/Position equality and hash are identity-based on (input pointer, start, end). Determinism of the entry points: Verus proves (unit rules) that try_parse / try_check / try_parse_partial / try_check_partial build a fresh Stack per call and that their verdict and stopping offset are the values of spec functions of the input alone (full / sem on the empty stack), so two calls on the same input agree; that the trees are equal too is a bounded native check (parse twice and interleaved, compare with ==, hash, Debug). "Any order of earlier parses" is a history property outside function contracts.',
        'level_note': NOTE_COMMON + 'Derived Clone/Hash/PartialEq on rule structs are rustc derives (trusted); histories n/a.',
        'technique': TECH,
        'verus': ['rules'],
        'expanded': True,
        'kani': [
            ('k_acc', 'eqhash_seq2', 'complete', 'q', 'sequence PartialEq/Hash/Clone, arity 2, all alternative indices x all u8 payloads (loop-free)'),
            ('k_acc', 'eqhash_seq3', 'complete', 'q', 'sequence PartialEq/Hash/Clone, arity 3, all alternative indices x all u8 payloads (loop-free)'),
            ('k_acc', 'eqhash_seq4', 'complete', 't', 'sequence PartialEq/Hash/Clone, arity 4, all alternative indices x all u8 payloads (loop-free)'),
            ('k_acc', 'eqhash_seq5', 'complete', 't', 'sequence PartialEq/Hash/Clone, arity 5, all alternative indices x all u8 payloads (loop-free)'),
            ('k_acc', 'eqhash_seq6', 'complete', 't', 'sequence PartialEq/Hash/Clone, arity 6, all alternative indices x all u8 payloads (loop-free)'),
            ('k_acc', 'eqhash_seq7', 'complete', 'q', 'sequence PartialEq/Hash/Clone, arity 7, all alternative indices x all u8 payloads (loop-free)'),
            ('k_acc', 'eqhash_seq8', 'complete', 't', 'sequence PartialEq/Hash/Clone, arity 8, all alternative indices x all u8 payloads (loop-free)'),
            ('k_acc', 'eqhash_seq9', 'complete', 't', 'sequence PartialEq/Hash/Clone, arity 9, all alternative indices x all u8 payloads (loop-free)'),
            ('k_acc', 'eqhash_seq10', 'complete', 't', 'sequence PartialEq/Hash/Clone, arity 10, all alternative indices x all u8 payloads (loop-free)'),
            ('k_acc', 'eqhash_seq11', 'complete', 't', 'sequence PartialEq/Hash/Clone, arity 11, all alternative indices x all u8 payloads (loop-free)'),
            ('k_acc', 'eqhash_seq12', 'complete', 'q', 'sequence PartialEq/Hash/Clone, arity 12, all alternative indices x all u8 payloads (loop-free)'),
            ('k_acc', 'eqhash_seq13', 'complete', 'q', 'sequence PartialEq/Hash/Clone, arity 13, all alternative indices x all u8 payloads (loop-free)'),
            ('k_acc', 'eqhash_seq14', 'complete', 't', 'sequence PartialEq/Hash/Clone, arity 14, all alternative indices x all u8 payloads (loop-free)'),
            ('k_acc', 'eqhash_seq15', 'complete', 't', 'sequence PartialEq/Hash/Clone, arity 15, all alternative indices x all u8 payloads (loop-free)'),
            ('k_acc', 'eqhash_seq16', 'complete', 'q', 'sequence PartialEq/Hash/Clone, arity 16, all alternative indices x all u8 payloads (loop-free)'),
            ('k_acc', 'span_eq_hash', 'complete', 'q', 'Span/Position ==, hash: all start/end, same and different input objects (loop-free)'),
        ],
        'native': [
            ('nb_peg', 'nb_determinism', 'parse twice / clone / eq / hash / Debug on 4 grammars, all strings<=6 chars; sub-ranges of one string', 'q'),
        ],
        'assumptions': ['no static mut / interior mutability in main/src (syntactic scan at check time)', 'derived impls are rustc derives'],
    },
    'C19': {
        'level': 'proof',
        'level_text': 'Verus proves for all MIN, MAX, SKIP and element types the check paths of RepeatMin / RepeatMinMax / AtomicRepeat and try_check_unit against the greedy bounded-repetition denotation (fails iff a unit fails before MIN, stops at MAX, state after the last matched unit so an unmatched skip is not consumed), and both paths of [T;N], (T1,T2), Option<T>. The parse paths of the repetitions and try_parse_unit are proved against the same denotation (unit reppar, after rewrite R9), with node_ok: the node holds exactly the matched units, count <= MAX and >= MIN (for MIN <= MAX; a RepeatMinMax with MIN > MAX stops at MAX like the unrolling pest performs for e{m,n}; the bounds in the statement are read for MIN <= MAX).',
        'level_note': NOTE_COMMON + 'Termination of the unbounded loop is not claimed (R6: a for over 0usize.. is assumed never to exhaust 2^64-1 iterations).',
        'technique': TECH,
        'verus': ['comb', 'repchk', 'reppar', 'input'],
        'expanded': False,
        'kani': K_PEG,
        'native': NB_PEG,
        'assumptions': ['partial correctness for the unbounded repetition loop'],
    },
}

COMMON_TRUSTED = [
    'Verus 0.2026.09.13 + Z3 (SMT encoding, vstd specifications of core types)',
    'Kani 0.68 / CBMC 6.11 (for the harnesses listed under kani_*)',
    'extractor /verif/lib/rsx.py + vgen.py and the rewrite table R1-R11 (diff written to the run directory on every run)',
    'rustc macro expansion (-Zunpretty=expanded) for macro-defined items',
    'machine integers are modelled exactly by both tools (no mathematical-integer abstraction of executable code)',
]

NOT_APPLICABLE = {
    'C11': 'generator/proc-macro property (pest_meta validator call, "emitted code compiles", termination of every parse): no function-level contract expressible in Verus/Kani over TokenStream/pest_meta ASTs; whole-grammar liveness (DESIGN.md §6)',
    'C16': 'getter code is assembled as TokenStreams by the generator (graph.rs); property is about behaviour of emitted accessors for every grammar — no contract over quote! output is expressible; would be translation validation, a different family (DESIGN.md §6)',
    'C20': 'relation between separate generator runs / separately compiled option combinations; outside any single-function contract (DESIGN.md §6)',
}
