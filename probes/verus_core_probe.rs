// Probe kept from the design phase. Function bodies of restore_on_none, Option<T>::try_check_partial_with,
// try_check_unit, normalize_index are the texts of /repo/main/src at the pinned commit with the
// tracker argument erased (DESIGN.md §3.1 R1); everything else is ghost.
use vstd::prelude::*;
verus! {

// ---- model of pest::Stack (R4) -------------------------------------------------------------
#[verifier::external_body]
#[verifier::reject_recursive_types(T)]
pub struct Stack<T> { p: core::marker::PhantomData<T> }
pub struct StackView<T> { pub cur: Seq<T>, pub snaps: Seq<Seq<T>> }
impl<T> Stack<T> {
    pub uninterp spec fn view(&self) -> StackView<T>;
    #[verifier::external_body]
    pub fn snapshot(&mut self)
        ensures final(self)@.cur == old(self)@.cur, final(self)@.snaps == old(self)@.snaps.push(old(self)@.cur),
    { unimplemented!() }
    #[verifier::external_body]
    pub fn clear_snapshot(&mut self)
        requires old(self)@.snaps.len() > 0,
        ensures final(self)@.cur == old(self)@.cur, final(self)@.snaps == old(self)@.snaps.drop_last(),
    { unimplemented!() }
    #[verifier::external_body]
    pub fn restore(&mut self)
        requires old(self)@.snaps.len() > 0,
        ensures final(self)@.cur == old(self)@.snaps.last(), final(self)@.snaps == old(self)@.snaps.drop_last(),
    { unimplemented!() }
}

pub struct Span { pub start: usize, pub end: usize }
pub struct Ctx { pub bytes: Seq<u8>, pub start: nat, pub end: nat }
pub trait Input: Copy {
    spec fn ctx(&self) -> Ctx;
    spec fn off(&self) -> nat;
}
pub type Res = Option<(nat, Seq<Span>)>;

pub trait NeverFailedTypedNode: Sized {
    spec fn sem_nf(c: Ctx, pos: nat, st: Seq<Span>) -> (nat, Seq<Span>);
    fn check_with<I: Input>(input: I, stack: &mut Stack<Span>) -> (r: I)
        ensures
            final(stack)@.snaps == old(stack)@.snaps,
            r.off() == Self::sem_nf(input.ctx(), input.off(), old(stack)@.cur).0,
            final(stack)@.cur == Self::sem_nf(input.ctx(), input.off(), old(stack)@.cur).1,
            r.ctx() == input.ctx();
}
pub trait TypedNode: Sized {
    spec fn sem(c: Ctx, pos: nat, st: Seq<Span>) -> Res;
    fn try_check_partial_with<I: Input>(input: I, stack: &mut Stack<Span>) -> (r: Option<I>)
        ensures
            final(stack)@.snaps == old(stack)@.snaps,
            match Self::sem(input.ctx(), input.off(), old(stack)@.cur) {
                Some((p, s)) => r is Some && r->0.off() == p && r->0.ctx() == input.ctx() && final(stack)@.cur == s,
                None => r is None,
            };
}

// ---- predefined_node/mod.rs:1034-1045, verbatim -------------------------------------------
pub fn restore_on_none<T>(
    stack: &mut Stack<Span>,
    f: impl FnOnce(&mut Stack<Span>) -> Option<T>,
) -> (res: Option<T>)
    requires
        forall |s: &mut Stack<Span>| f.requires((s,)),
        forall |s: &mut Stack<Span>, r: Option<T>| f.ensures((s,), r) ==> final(s)@.snaps == (*s)@.snaps,
    ensures
        res is None ==> final(stack)@.cur =~= old(stack)@.cur,
        final(stack)@.snaps =~= old(stack)@.snaps,
        exists |s0: &mut Stack<Span>| (*s0)@.cur == old(stack)@.cur && #[trigger] f.ensures((s0,), res)
            && (res is Some ==> final(stack)@.cur == final(s0)@.cur),
{
    stack.snapshot();
    let res = f(stack);
    match res.as_ref() {
        Some(_) => stack.clear_snapshot(),
        None => stack.restore(),
    }
    res
}

// ---- typed_node.rs:233-244 (check path of Option<T>), tracker erased -----------------------
pub open spec fn sem_opt<T: TypedNode>(c: Ctx, pos: nat, st: Seq<Span>) -> Res {
    match T::sem(c, pos, st) { Some(r) => Some(r), None => Some((pos, st)) }
}
impl<T: TypedNode> TypedNode for Option<T> {
    open spec fn sem(c: Ctx, pos: nat, st: Seq<Span>) -> Res { sem_opt::<T>(c, pos, st) }
    fn try_check_partial_with<I: Input>(input: I, stack: &mut Stack<Span>) -> (r: Option<I>)
    {
        match restore_on_none(stack, |stack: &mut Stack<Span>| -> (r: Option<I>)
            ensures
                final(stack)@.snaps == old(stack)@.snaps,
                match T::sem(input.ctx(), input.off(), old(stack)@.cur) {
                    Some((p, s)) => r is Some && r->0.off() == p && r->0.ctx() == input.ctx() && final(stack)@.cur == s,
                    None => r is None,
                }
            {
            T::try_check_partial_with(input, stack)
        }) {
            Some(input) => Some(input),
            None => Some(input),
        }
    }
}

// ---- repetition.rs:452-474 (try_check_unit), tracker erased --------------------------------
pub open spec fn skip_k<Skip: NeverFailedTypedNode>(c: Ctx, k: nat, pos: nat, st: Seq<Span>) -> (nat, Seq<Span>)
    decreases k
{
    if k == 0 { (pos, st) } else {
        let (p, s) = Skip::sem_nf(c, pos, st);
        skip_k::<Skip>(c, (k - 1) as nat, p, s)
    }
}
pub open spec fn unit_sem<T: TypedNode, Skip: NeverFailedTypedNode>(c: Ctx, skip: nat, i: nat, pos: nat, st: Seq<Span>) -> Res {
    let (p, s) = if i > 0 { skip_k::<Skip>(c, skip, pos, st) } else { (pos, st) };
    T::sem(c, p, s)
}
fn try_check_unit<I: Input, T: TypedNode, Skip: NeverFailedTypedNode, const SKIP: usize>(
    mut input: I,
    stack: &mut Stack<Span>,
    i: usize,
) -> (r: Option<I>)
    ensures
        final(stack)@.snaps == old(stack)@.snaps,
        match unit_sem::<T, Skip>(input.ctx(), SKIP as nat, i as nat, input.off(), old(stack)@.cur) {
            Some((p, s)) => r is Some && r->0.off() == p && r->0.ctx() == input.ctx() && final(stack)@.cur == s,
            None => r is None,
        },
{
    let ghost c = input.ctx();
    let ghost pos0 = input.off();
    let ghost st0 = stack@.cur;
    for k in 0..SKIP
        invariant
            stack@.snaps == old(stack)@.snaps,
            input.ctx() == c,
            i > 0 ==> skip_k::<Skip>(c, (SKIP - k) as nat, input.off(), stack@.cur) == skip_k::<Skip>(c, SKIP as nat, pos0, st0),
            i == 0 ==> input.off() == pos0 && stack@.cur == st0,
    {
        if i > 0 {
            let next = Skip::check_with(input, stack);
            input = next;
        }
    }
    let next = T::try_check_partial_with(input, stack)?;
    input = next;
    Some(input)
}

// ---- parser_state.rs:23-36, verbatim -------------------------------------------------------
pub open spec fn spec_norm(i: int, len: int) -> Option<usize> {
    if i > len { None } else if i >= 0 { Some(i as usize) } else if len + i >= 0 { Some((len + i) as usize) } else { None }
}
fn normalize_index(i: i32, len: usize) -> (r: Option<usize>)
    requires len <= i32::MAX,
    ensures r == spec_norm(i as int, len as int),
{
    if i > len as i32 {
        None
    } else if i >= 0 {
        Some(i as usize)
    } else {
        let real_i = len as i32 + i;
        if real_i >= 0 {
            Some(real_i as usize)
        } else {
            None
        }
    }
}

// ---- input.rs: `unsafe fn cursor(&mut self) -> &mut usize` is expressible --------------------
pub trait Cursor: Copy {
    spec fn pos(&self) -> nat;
    unsafe fn cursor(&mut self) -> (r: &mut usize)
        ensures *r == old(self).pos(), final(self).pos() == *final(r);
    fn bump(&mut self, n: usize)
        requires old(self).pos() + n <= usize::MAX,
        ensures final(self).pos() == old(self).pos() + n,
    {
        unsafe { *self.cursor() += n };
    }
}

} // verus!
fn main() {}
