"""unit spanpos — Span::{new, start, end, get_input, as_str, new_unchecked}, merge_spans (span.rs) and
Position::{new, new_unchecked, from_start, pos, span} (position.rs).
C13: `new` returns Some exactly for in-range boundary pairs; merge_spans succeeds exactly for overlapping or
adjacent spans *of one input* and yields their hull.  C09: the constructors establish the span invariant."""
import re
import _prelude as P
from input import SHIMS, UTF8


GET_SPEC = r'''
pub open spec fn bound_lo(b: Bound<&usize>) -> int { match b { Bound::Included(o) => *o as int, Bound::Excluded(o) => *o + 1, Bound::Unbounded => 0 } }
pub open spec fn bound_hi(b: Bound<&usize>, len: int) -> int { match b { Bound::Included(o) => *o + 1, Bound::Excluded(o) => *o as int, Bound::Unbounded => len } }
'''
GET_CONTRACT = '''        requires self.wf(),
                 // machine arithmetic: `*offset + 1` must not overflow (the source adds 1 to an inclusive end / exclusive start)
                 bound_lo(RangeBoundsSpec::spec_start_bound(&range)) <= usize::MAX, bound_hi(RangeBoundsSpec::spec_end_bound(&range), self.text().len() as int) <= usize::MAX,
        ensures ({
            let a = bound_lo(RangeBoundsSpec::spec_start_bound(&range));
            let b = bound_hi(RangeBoundsSpec::spec_end_bound(&range), self.text().len() as int);
            // C13: Some exactly when a..b is a range of the span's text on character boundaries; then the same bytes, offsets shifted
            &&& (r is Some) == (a <= b && b <= self.text().len() && is_char_boundary(self.text(), a) && is_char_boundary(self.text(), b))
            &&& r is Some ==> r->0 == (Span { input: self.input, start: (self.start + a) as usize, end: (self.start + b) as usize }) && (r->0).wf()
        }),'''


def build(U):
    U.use('vstd::string::*')
    U.use('vstd::utf8::*')
    U.use('core::ops::Range')
    U.ghost(P.CORE, 'core vocabulary')
    U.ghost(SHIMS, 'R3 shims')
    U.ghost(UTF8, 'UTF-8 lemmas')
    U.ghost('#[verifier::external_body]\nfn vpanic() -> ! requires false, { panic!() }', 'panic! is unreachable (requires false)')
    sp = U.impl('main/src/span.rs', "impl<'i> Span<'i>", r1=False).drop_attrs()
    sp.keep_methods(['new_unchecked', 'new_full', 'new', 'start', 'end', 'start_pos', 'end_pos', 'split', 'get_input', 'as_str'])
    sp.rw('R7', 'debug_assert!(input.get(start..end).is_some());\n', '')
    sp.rw('R2', 'pub(crate) unsafe fn new_unchecked', 'pub unsafe fn new_unchecked')
    sp.text, k_pp = re.subn(r'\bposition::Position\b', 'Position', sp.text)
    sp.log.append(('R2', 'path prefix position::Position -> Position  x%d' % k_pp))
    sp.rw_slices()
    sp.ret('r', fname='new_unchecked')
    sp.contract('''        requires start <= end, end <= input.spec_bytes().len(), is_char_boundary(input.spec_bytes(), start as int), is_char_boundary(input.spec_bytes(), end as int),
        ensures r == (Span { input, start, end }), r.wf(),''', fname='new_unchecked')
    sp.ret('r', fname='new_full')
    sp.contract('        ensures r == (Span { input, start: 0, end: input.spec_bytes().len() as usize }), r.wf(),', fname='new_full')
    sp.body_start('        proof { lemma_str_valid(input); lemma_boundary_ends(input.spec_bytes()); }', fname='new_full')
    sp.ret('r', fname='new')
    sp.contract('''        // C13: None exactly for invalid or non-boundary ranges
        ensures (r is Some) == (start <= end && end <= input.spec_bytes().len() && is_char_boundary(input.spec_bytes(), start as int) && is_char_boundary(input.spec_bytes(), end as int)),
                r is Some ==> r->0 == (Span { input, start, end }) && (r->0).wf(),''', fname='new')
    sp.ret('r', fname='as_str')
    sp.contract('        requires self.wf(),\n        ensures r.spec_bytes() == self.text(),', fname='as_str')
    sp.ret('r', fname='start'); sp.contract('        ensures r == self.start,', fname='start')
    sp.ret('r', fname='end'); sp.contract('        ensures r == self.end,', fname='end')
    sp.ret('r', fname='start_pos'); sp.contract('        requires self.wf(),\n        ensures r.input == self.input, r.pos == self.start,', fname='start_pos')
    sp.ret('r', fname='end_pos'); sp.contract('        requires self.wf(),\n        ensures r.input == self.input, r.pos == self.end,', fname='end_pos')
    sp.ret('r', fname='split'); sp.contract('        requires self.wf(),\n        ensures r.0.input == self.input, r.0.pos == self.start, r.1.input == self.input, r.1.pos == self.end,', fname='split')
    sp.ret('r', fname='get_input'); sp.contract('        ensures r == self.input,', fname='get_input')
    U.emit(sp)

    # ---- Span::get, instantiated at the six range forms (R10: `impl RangeBounds<usize>` -> the concrete type) ------------
    U.use('core::ops::{Bound, RangeBounds, RangeFrom, RangeTo, RangeInclusive, RangeToInclusive, RangeFull}')
    U.use('vstd::std_specs::range::*')
    U.ghost(GET_SPEC, 'C13: what Span::get returns, from the statement (str::get on the text of the span, offsets shifted)')
    for suffix, ty in (('range', 'Range<usize>'), ('from', 'RangeFrom<usize>'), ('to', 'RangeTo<usize>'), ('inclusive', 'RangeInclusive<usize>'),
                       ('to_inclusive', 'RangeToInclusive<usize>'), ('full', 'RangeFull')):
        g = U.impl('main/src/span.rs', "impl<'i> Span<'i>", r1=False).drop_attrs()
        g.keep_methods(['get'])
        g.rw('R10', 'pub fn get(&self, range: impl RangeBounds<usize>)', 'pub fn get_%s(&self, range: %s)' % (suffix, ty))
        g.name = "impl Span (get at %s)" % ty
        g.rw_slices()
        g.ret('r', fname='get_' + suffix)
        g.contract(GET_CONTRACT, fname='get_' + suffix)
        g.closure(1, params='_x: &str', contract="-> (o: Span<'i>) requires start <= end, end <= self.end - self.start, self.end <= usize::MAX, ensures o == (Span { input: self.input, start: (self.start + start) as usize, end: (self.start + end) as usize })", fname='get_' + suffix)
        g.body_start('''        proof {
            lemma_str_valid(self.input);
            let a = bound_lo(RangeBoundsSpec::spec_start_bound(&range));
            let b = bound_hi(RangeBoundsSpec::spec_end_bound(&range), self.text().len() as int);
            lemma_sub_boundary(self.input.spec_bytes(), self.start as int, self.end as int, 0);
            if 0 <= a <= self.end - self.start { lemma_sub_boundary(self.input.spec_bytes(), self.start as int, self.end as int, a); }
            if 0 <= b <= self.end - self.start { lemma_sub_boundary(self.input.spec_bytes(), self.start as int, self.end as int, b); }
        }''', fname='get_' + suffix)
        U.emit(g)

    m = U.fn('main/src/span.rs', 'merge_spans', std=True).drop_attrs()
    m.rw('R3', 'core::cmp::min(', 'shim_min(')
    m.rw('R3', 'core::cmp::max(', 'shim_max(')
    U.ghost('''#[verifier::external_body]
fn shim_min(a: usize, b: usize) -> (r: usize) ensures r == if a <= b { a } else { b }, { core::cmp::min(a, b) }
#[verifier::external_body]
fn shim_max(a: usize, b: usize) -> (r: usize) ensures r == if a >= b { a } else { b }, { core::cmp::max(a, b) }''', 'R3 shims core::cmp::{min,max}')
    m.ret('r')
    m.contract('''    requires a.wf(), b.wf(), a.input == b.input,
    // C13: merging succeeds exactly for overlapping or adjacent spans and yields their hull
    ensures (r is Some) == (a.end >= b.start && a.start <= b.end),
            r is Some ==> r->0 == (Span { input: a.input, start: if a.start <= b.start { a.start } else { b.start }, end: if a.end >= b.end { a.end } else { b.end } }) && (r->0).wf(),''')
    U.emit(m)

    po = U.impl('main/src/position.rs', "impl<'i> Position<'i>", r1=False).drop_attrs()
    po.keep_methods(['new_unchecked', 'new', 'from_start', 'pos', 'span', 'at_start', 'at_end'])
    po.rw('R7', 'debug_assert!(input.get(pos..).is_some());\n', '')
    po.rw('R2', 'pub(crate) unsafe fn new_unchecked', 'pub unsafe fn new_unchecked')
    po.rw('R3', 'ptr::eq(self.input, other.input)', 'shim_ptr_eq(self.input, other.input)')
    po.rw('R2', 'span::Span', 'Span', count=2)
    po.rw('R3', 'panic!("span created from positions from different inputs")', 'vpanic()')
    po.rw_slices()
    po.closure(1, params='_x: &str', contract="-> (o: Position<'_>) ensures o.input == input, o.pos == pos", fname='new')
    po.ret('r', fname='new_unchecked')
    po.contract('''        requires pos <= input.spec_bytes().len(), is_char_boundary(input.spec_bytes(), pos as int),
        ensures r.input == input, r.pos == pos,''', fname='new_unchecked')
    po.ret('r', fname='new')
    po.contract('''        ensures (r is Some) == (pos <= input.spec_bytes().len() && is_char_boundary(input.spec_bytes(), pos as int)),
                r is Some ==> (r->0).input == input && (r->0).pos == pos,''', fname='new')
    po.ret('r', fname='from_start'); po.contract('        ensures r.input == input, r.pos == 0,', fname='from_start')
    po.ret('r', fname='pos'); po.contract('        ensures r == self.pos,', fname='pos')
    po.ret('r', fname='at_start'); po.contract('        ensures r == (self.pos == 0),', fname='at_start')
    po.ret('r', fname='at_end'); po.contract('        ensures r == (self.pos == self.input.spec_bytes().len()),', fname='at_end')
    po.body_start('        proof { lemma_str_valid(self.input); }', fname='at_end')
    po.ret('r', fname='span')
    po.contract('''        requires self.input == other.input, self.pos <= other.pos, other.pos <= self.input.spec_bytes().len(),
                 is_char_boundary(self.input.spec_bytes(), self.pos as int), is_char_boundary(self.input.spec_bytes(), other.pos as int),
        ensures r == (Span { input: self.input, start: self.pos, end: other.pos }), r.wf(),''', fname='span')
    U.emit(po)
