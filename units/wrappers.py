"""unit wrappers — full-input entry points rule::{parse, check, parse_without_ignore, check_without_ignore}
(rule.rs:739-840).  C04: success iff the rule matches a prefix and, after the trailing skip (none for the
`_without_ignore` pair), the cursor is at the end of the input; check == parse.is_some() (C03)."""
import re
import _prelude as P
from nodes import SEM as NODE_SEM

SPEC = r'''
// C04, from the statement: the full match succeeds exactly when the prefix match succeeds and the
// position after the trailing skip is the end of input.
pub open spec fn full_ok<'i, R: RuleType, S: TypedNode<'i, R>, IGN: NeverFailedTypedNode<'i, R>>(c: Ctx<'i>, pos: nat, st: Seq<Span<'i>>) -> bool {
    match S::sem(c, pos, st) {
        None => false,
        Some((p, s)) => IGN::sem_nf(c, p, s).0 == c.end,
    }
}
pub open spec fn full_ok_atomic<'i, R: RuleType, S: TypedNode<'i, R>>(c: Ctx<'i>, pos: nat, st: Seq<Span<'i>>) -> bool {
    match S::sem(c, pos, st) {
        None => false,
        Some((p, s)) => p == c.end,
    }
}
'''


def build(U):
    emit(U)


def emit(U):
    """prelude + EOI + the four full-input wrappers (also used by unit `rules`)"""
    U.use('vstd::string::*')
    U.use('vstd::utf8::*')
    F = 'main/src/rule.rs'
    M = 'main/src/predefined_node/mod.rs'
    U.ghost(P.CORE, 'core vocabulary')
    U.ghost(P.input_trait_decl(P.INPUT_BASIC, position_impl=True), 'trait Input (contracts only) + impl for Position (contracts only)')
    U.ghost(P.TRAITS, 'trait contracts')
    U.ghost("pub open spec fn sem_eoi<'i>(c: Ctx<'i>, pos: nat, st: Seq<Span<'i>>) -> Res<'i> { if pos == c.end { Some((pos, st)) } else { None } }", 'sem of EOI')
    st = U.block_item(M, r'pub struct EOI\b', 'struct EOI').drop_attrs()
    st.text = re.sub(r'[ \t]*#\[derive\([^\]]*\)\]\n?', '', st.text)
    U.emit(st, under_contract=False)
    im = U.impl(M, "TypedNode<'i, R> for EOI").drop_attrs()
    im.prepend_in_block(P.semdef("sem_eoi(c, pos, st)"))
    U.emit(im)
    U.ghost(SPEC, 'full-match specification')
    for name, ok, kind in [('parse', 'full_ok::<R, _Self, IGNORED>', 'p'), ('check', 'full_ok::<R, _Self, IGNORED>', 'c'),
                           ('parse_without_ignore', 'full_ok_atomic::<R, _Self>', 'p'), ('check_without_ignore', 'full_ok_atomic::<R, _Self>', 'c')]:
        f = U.fn(F, name).drop_attrs()
        # R1 removed the tracker from which rustc inferred EOI's rule type parameter: name it explicitly
        call = 'try_parse_partial_with' if kind == 'p' else 'try_check_partial_with'
        f.rw('R1b', r'\bEOI::(try_\w+)\(', r"<EOI as TypedNode<'i, R>>::\1(", regex=True)
        f.ret('r')
        res = 'r is Some' if kind == 'p' else 'r'
        f.contract('''    requires inv(input), stack_all_wf(old(stack)@),
    ensures (%s) == %s(input.ctx(), input.off(), old(stack)@.cur),
            final(stack)@.snaps == old(stack)@.snaps,''' % (res, ok))
        U.emit(f)
