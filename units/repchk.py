"""unit repchk — repetition, check paths (predefined_node/repetition.rs): try_check_unit, RepeatMin,
RepeatMinMax, AtomicRepeat (TypedNode::try_check_partial_with and NeverFailedTypedNode::check_with).
C19 (bounds, greedy, a skip before a failing iteration is given back), C07 (skip only between iterations),
C05 (a failed iteration leaves no trace).  Parse paths are unit reppar (rewrite R9).  Termination of the unbounded loop is not claimed (partial correctness)."""
import re
import _prelude as P

VERUS_FLAGS = ['--no-lifetime']
VERUS_FLAGS_WHY = 'the unit takes only the check-path methods of trait impls (parse paths are outside Verus), so the erased crate is not a complete Rust program; proofs are unaffected, no tracked/linear ghost state is used'
from seqchk import SKIPK

SEM = r'''
// unit i of a repetition: skip (only between iterations, i.e. i > 0) then the body
pub open spec fn unit_sem<'i, R: RuleType, T: TypedNode<'i, R>, Skip: NeverFailedTypedNode<'i, R>>(c: Ctx<'i>, skip: nat, i: nat, pos: nat, st: Seq<Span<'i>>) -> Res<'i> {
    let (p, s) = if i > 0 { skip_k::<R, Skip>(c, skip, pos, st) } else { (pos, st) };
    T::sem(c, p, s)
}
// state after n successful units (None if one of the first n units fails)
pub open spec fn rep_state<'i, R: RuleType, T: TypedNode<'i, R>, Skip: NeverFailedTypedNode<'i, R>>(c: Ctx<'i>, skip: nat, n: nat, pos: nat, st: Seq<Span<'i>>) -> Res<'i>
    decreases n
{
    if n == 0 { Some((pos, st)) } else {
        match rep_state::<R, T, Skip>(c, skip, (n - 1) as nat, pos, st) {
            None => None,
            Some((p, s)) => unit_sem::<R, T, Skip>(c, skip, (n - 1) as nat, p, s),
        }
    }
}
// the repetition stops after exactly n units: units 0..n match, unit n does not
pub open spec fn stops_at<'i, R: RuleType, T: TypedNode<'i, R>, Skip: NeverFailedTypedNode<'i, R>>(c: Ctx<'i>, skip: nat, n: nat, pos: nat, st: Seq<Span<'i>>) -> bool {
    rep_state::<R, T, Skip>(c, skip, n, pos, st) is Some && rep_state::<R, T, Skip>(c, skip, n + 1, pos, st) is None
}
// greedy repetition with bounds: n = number of leading matching units, capped at max (None = unbounded).
// Fails iff the repetition stopped (a unit failed) before `min` units; the result state is the one after
// unit n-1 — in particular a skip before a failing unit is not consumed.
pub open spec fn rep_result<'i, R: RuleType, T: TypedNode<'i, R>, Skip: NeverFailedTypedNode<'i, R>>(c: Ctx<'i>, skip: nat, min: nat, n: nat, capped: bool, pos: nat, st: Seq<Span<'i>>) -> Res<'i> {
    if n < min && !capped { None } else { rep_state::<R, T, Skip>(c, skip, n, pos, st) }
}
pub open spec fn sem_repmin<'i, R: RuleType, T: TypedNode<'i, R>, Skip: NeverFailedTypedNode<'i, R>>(c: Ctx<'i>, skip: nat, min: nat, pos: nat, st: Seq<Span<'i>>) -> Res<'i> {
    if exists|n: nat| stops_at::<R, T, Skip>(c, skip, n, pos, st) {
        let n = choose|n: nat| stops_at::<R, T, Skip>(c, skip, n, pos, st);
        rep_result::<R, T, Skip>(c, skip, min, n, false, pos, st)
    } else {
        None  // every unit matches forever: the parser does not return, nothing is claimed
    }
}
// bounded: stops at max even if more could match
pub open spec fn sem_repminmax<'i, R: RuleType, T: TypedNode<'i, R>, Skip: NeverFailedTypedNode<'i, R>>(c: Ctx<'i>, skip: nat, min: nat, max: nat, pos: nat, st: Seq<Span<'i>>) -> Res<'i> {
    if rep_state::<R, T, Skip>(c, skip, max, pos, st) is Some {
        rep_state::<R, T, Skip>(c, skip, max, pos, st)
    } else if exists|n: nat| n < max && stops_at::<R, T, Skip>(c, skip, n, pos, st) {
        let n = choose|n: nat| n < max && stops_at::<R, T, Skip>(c, skip, n, pos, st);
        rep_result::<R, T, Skip>(c, skip, min, n, false, pos, st)
    } else { None }
}
pub proof fn lemma_rep_state_prefix<'i, R: RuleType, T: TypedNode<'i, R>, Skip: NeverFailedTypedNode<'i, R>>(c: Ctx<'i>, skip: nat, n: nat, m: nat, pos: nat, st: Seq<Span<'i>>)
    requires m <= n, rep_state::<R, T, Skip>(c, skip, n, pos, st) is Some,
    ensures rep_state::<R, T, Skip>(c, skip, m, pos, st) is Some,
    decreases n
{
    if m < n { lemma_rep_state_prefix::<R, T, Skip>(c, skip, (n - 1) as nat, m, pos, st); }
}
pub proof fn lemma_stops_unique<'i, R: RuleType, T: TypedNode<'i, R>, Skip: NeverFailedTypedNode<'i, R>>(c: Ctx<'i>, skip: nat, n: nat, m: nat, pos: nat, st: Seq<Span<'i>>)
    requires stops_at::<R, T, Skip>(c, skip, n, pos, st), stops_at::<R, T, Skip>(c, skip, m, pos, st),
    ensures n == m,
{
    if n < m { lemma_rep_state_prefix::<R, T, Skip>(c, skip, m, n + 1, pos, st); }
    if m < n { lemma_rep_state_prefix::<R, T, Skip>(c, skip, n, m + 1, pos, st); }
}
// the state after some failing unit determines the result
pub proof fn lemma_repmin_at<'i, R: RuleType, T: TypedNode<'i, R>, Skip: NeverFailedTypedNode<'i, R>>(c: Ctx<'i>, skip: nat, min: nat, n: nat, pos: nat, st: Seq<Span<'i>>)
    requires stops_at::<R, T, Skip>(c, skip, n, pos, st),
    ensures sem_repmin::<R, T, Skip>(c, skip, min, pos, st) == rep_result::<R, T, Skip>(c, skip, min, n, false, pos, st),
{
    let m = choose|m: nat| stops_at::<R, T, Skip>(c, skip, m, pos, st);
    lemma_stops_unique::<R, T, Skip>(c, skip, n, m, pos, st);
}
pub proof fn lemma_repminmax_at<'i, R: RuleType, T: TypedNode<'i, R>, Skip: NeverFailedTypedNode<'i, R>>(c: Ctx<'i>, skip: nat, min: nat, max: nat, n: nat, pos: nat, st: Seq<Span<'i>>)
    requires n < max, stops_at::<R, T, Skip>(c, skip, n, pos, st),
    ensures sem_repminmax::<R, T, Skip>(c, skip, min, max, pos, st) == rep_result::<R, T, Skip>(c, skip, min, n, false, pos, st),
{
    if rep_state::<R, T, Skip>(c, skip, max, pos, st) is Some {
        lemma_rep_state_prefix::<R, T, Skip>(c, skip, max, n + 1, pos, st);
    }
    let m = choose|m: nat| m < max && stops_at::<R, T, Skip>(c, skip, m, pos, st);
    lemma_stops_unique::<R, T, Skip>(c, skip, n, m, pos, st);
}
// R6: a `for` over `0usize..` has no normal exit (the original wraps/panics after 2^64-1 iterations)
#[verifier::external_body]
pub proof fn range_from_has_no_end()
    ensures false,
{ }
'''

UNIT_CL = '''-> (r: Option<I>)
                requires inv(input), stack_all_wf(old(stack)@),
                ensures match unit_sem::<R, T, Skip>(input.ctx(), SKIP as nat, i as nat, input.off(), old(stack)@.cur) {
                    Some((p, s)) => r is Some && post_some(input, old(stack)@, r->0, final(stack)@, p, s),
                    None => r is None && post_none(old(stack)@, final(stack)@),
                }'''

# bounded loop: facts about the iteration index hold at the loop head (not at `break`, where Verus has already
# advanced the ghost iterator); what holds at every exit is stated as the loop's `ensures`.
LOOP_INV = '''            invariant_except_break
                rep_state::<R, T, Skip>(input0.ctx(), SKIP as nat, it.index@ as nat, input0.off(), old(stack)@.cur)
                    == Some((input.off(), stack@.cur)),
            invariant
                inv(input), input.ctx() == input0.ctx(), input.off() >= input0.off(),
                stack@.snaps == old(stack)@.snaps, stack_all_wf(stack@),
            ensures
                sem_repminmax::<R, T, Skip>(input0.ctx(), SKIP as nat, %(min)s, MAX as nat, input0.off(), old(stack)@.cur)
                    == Some((input.off(), stack@.cur)),'''


def struct(U, name):
    it = U.block_item('main/src/predefined_node/repetition.rs', r'pub struct %s\b' % name, 'struct ' + name).drop_attrs()
    it.text = re.sub(r'[ \t]*#\[derive\([^\]]*\)\]\n?', '', it.text)
    it.log.append(('R5', 'derive attribute dropped'))
    U.emit(it, under_contract=False)


def build(U):
    U.use('vstd::string::*')
    U.use('vstd::utf8::*')
    F = 'main/src/predefined_node/repetition.rs'
    U.ghost(P.CORE, 'core vocabulary')
    U.ghost(P.input_trait_decl(P.INPUT_BASIC), 'trait Input (contracts only)')
    U.ghost(P.TRAITS, 'trait contracts')
    P.emit_restore_on_none(U)
    U.ghost(SKIPK, 'skip_k')
    U.ghost(SEM, 'repetition semantics')
    sk = U.block_item('main/src/predefined_node/mod.rs', r'pub struct Skipped\b', 'struct Skipped').drop_attrs()
    sk.text = re.sub(r'[ \t]*#\[derive\([^\]]*\)\]\n?', '', sk.text)
    sk.log.append(('R5', 'derive attribute dropped'))
    U.emit(sk, under_contract=False)

    # ---- try_check_unit -------------------------------------------------------------------------
    f = U.fn(F, 'try_check_unit').drop_attrs()
    f.ret('r')
    f.contract('''    requires inv(input), stack_all_wf(old(stack)@),
    ensures match unit_sem::<R, T, Skip>(input.ctx(), SKIP as nat, i as nat, input.off(), old(stack)@.cur) {
            Some((p, s)) => r is Some && post_some(input, old(stack)@, r->0, final(stack)@, p, s),
            None => r is None && post_none(old(stack)@, final(stack)@),
        },''')
    f.attr('#[verifier::loop_isolation(false)]')
    f.body_start('    let ghost input0 = input;')
    f.loop(1, it='it', inv='''        invariant
            inv(input), input.ctx() == input0.ctx(), input.off() >= input0.off(),
            stack@.snaps == old(stack)@.snaps, stack_all_wf(stack@),
            i > 0 ==> skip_k::<R, Skip>(input0.ctx(), (SKIP - it.index@) as nat, input.off(), stack@.cur)
                        == skip_k::<R, Skip>(input0.ctx(), SKIP as nat, input0.off(), old(stack)@.cur),
            i == 0 ==> input.off() == input0.off() && stack@.cur == old(stack)@.cur,''')
    f.loop_body_start(1, '''            proof {
                let k = (SKIP - it.index@) as nat;
                assert(k > 0);
                assert(skip_k::<R, Skip>(input0.ctx(), k, input.off(), stack@.cur) == ({
                    let (p, s) = Skip::sem_nf(input0.ctx(), input.off(), stack@.cur);
                    skip_k::<R, Skip>(input0.ctx(), (k - 1) as nat, p, s) }));
            }''')
    P.hints(f)
    U.emit(f)

    # ---- RepeatMinMax: TypedNode check path ---------------------------------------------------------
    struct(U, 'RepeatMinMax')
    im = U.impl(F, "TypedNode<'i, R> for RepeatMinMax<Skipped<T, Skip, SKIP>, MIN, MAX>").drop_attrs()
    im.keep_methods(['try_check_partial_with'])
    im.prepend_in_block(P.semdef("sem_repminmax::<R, T, Skip>(c, SKIP as nat, MIN as nat, MAX as nat, pos, st)"))
    im.attr('    #[verifier::loop_isolation(false)]')
    im.body_start('        let ghost input0 = input;')
    im.loop(1, it='it', inv=LOOP_INV % {'min': 'MIN as nat'})
    im.closure(1, params=P.STACK_PARAM, contract=UNIT_CL)
    im.loop_body_start(1, '''            proof {
                assert(rep_state::<R, T, Skip>(input0.ctx(), SKIP as nat, (i + 1) as nat, input0.off(), old(stack)@.cur)
                    == unit_sem::<R, T, Skip>(input0.ctx(), SKIP as nat, i as nat, input.off(), stack@.cur));
                if i < MAX && unit_sem::<R, T, Skip>(input0.ctx(), SKIP as nat, i as nat, input.off(), stack@.cur) is None {
                    lemma_repminmax_at::<R, T, Skip>(input0.ctx(), SKIP as nat, MIN as nat, MAX as nat, i as nat, input0.off(), old(stack)@.cur);
                }
            }''')
    P.hints(im)
    U.emit(im)

    # ---- RepeatMin: TypedNode check path (unbounded loop, R6) ----------------------------------------
    struct(U, 'RepeatMin')
    im = U.impl(F, "TypedNode<'i, R> for RepeatMin<Skipped<T, Skip, SKIP>, MIN>").drop_attrs()
    im.keep_methods(['try_check_partial_with'])
    im.prepend_in_block(P.semdef("sem_repmin::<R, T, Skip>(c, SKIP as nat, MIN as nat, pos, st)"))
    im.attr('    #[verifier::loop_isolation(false)]')
    im.attr('    #[verifier::exec_allows_no_decreases_clause]')
    im.body_start('        let ghost input0 = input;')
    im.loop(1, it='it', inv=UNB_INV % {'sem': 'sem_repmin::<R, T, Skip>(input0.ctx(), SKIP as nat, MIN as nat, input0.off(), old(stack)@.cur)'})
    im.closure(1, params=P.STACK_PARAM, contract=UNIT_CL)
    im.loop_body_start(1, UNB_HINT % {'lemma': 'lemma_repmin_at::<R, T, Skip>(input0.ctx(), SKIP as nat, MIN as nat, i as nat, input0.off(), old(stack)@.cur)'})
    P.hints(im)
    U.emit(im)

    # ---- NeverFailedTypedNode::check_with for RepeatMin<.., 0> and RepeatMinMax<.., 0, MAX> -------------
    im = U.impl(F, "NeverFailedTypedNode<'i, R> for RepeatMin<Skipped<T, Skip, SKIP>, 0>").drop_attrs()
    im.keep_methods(['check_with'])
    im.prepend_in_block("    open spec fn sem_nf(c: Ctx<'i>, pos: nat, st: Seq<Span<'i>>) -> (nat, Seq<Span<'i>>) { sem_repmin::<R, T, Skip>(c, SKIP as nat, 0, pos, st).unwrap() }")
    im.attr('    #[verifier::loop_isolation(false)]')
    im.attr('    #[verifier::exec_allows_no_decreases_clause]')
    im.body_start('        let ghost input0 = input;')
    im.loop(1, it='it', inv=UNB_INV % {'sem': 'sem_repmin::<R, T, Skip>(input0.ctx(), SKIP as nat, 0, input0.off(), old(stack)@.cur)'})
    im.closure(1, params=P.STACK_PARAM, contract=UNIT_CL)
    im.loop_body_start(1, UNB_HINT % {'lemma': 'lemma_repmin_at::<R, T, Skip>(input0.ctx(), SKIP as nat, 0, i as nat, input0.off(), old(stack)@.cur)'})
    P.hints(im)
    U.emit(im)

    im = U.impl(F, "NeverFailedTypedNode<'i, R> for RepeatMinMax<Skipped<T, Skip, SKIP>, 0, MAX>").drop_attrs()
    im.keep_methods(['check_with'])
    im.prepend_in_block("    open spec fn sem_nf(c: Ctx<'i>, pos: nat, st: Seq<Span<'i>>) -> (nat, Seq<Span<'i>>) { sem_repminmax::<R, T, Skip>(c, SKIP as nat, 0, MAX as nat, pos, st).unwrap() }")
    im.attr('    #[verifier::loop_isolation(false)]')
    im.body_start('        let ghost input0 = input;')
    im.loop(1, it='it', inv=LOOP_INV % {'min': '0'})
    im.closure(1, params=P.STACK_PARAM, contract=UNIT_CL)
    im.loop_body_start(1, '''            proof {
                assert(rep_state::<R, T, Skip>(input0.ctx(), SKIP as nat, (i + 1) as nat, input0.off(), old(stack)@.cur)
                    == unit_sem::<R, T, Skip>(input0.ctx(), SKIP as nat, i as nat, input.off(), stack@.cur));
                if i < MAX && unit_sem::<R, T, Skip>(input0.ctx(), SKIP as nat, i as nat, input.off(), stack@.cur) is None {
                    lemma_repminmax_at::<R, T, Skip>(input0.ctx(), SKIP as nat, 0, MAX as nat, i as nat, input0.off(), old(stack)@.cur);
                }
            }''')
    P.hints(im)
    U.emit(im)

    # ---- AtomicRepeat<T>: repetition without skipping ------------------------------------------------------
    U.ghost(ATOMIC, 'AtomicRepeat = repetition of T with no skip')
    struct(U, 'AtomicRepeat')
    im = U.impl(F, "NeverFailedTypedNode<'i, R> for AtomicRepeat<T>").drop_attrs()
    im.keep_methods(['check_with'])
    im.prepend_in_block("    open spec fn sem_nf(c: Ctx<'i>, pos: nat, st: Seq<Span<'i>>) -> (nat, Seq<Span<'i>>) { sem_repmin::<R, T, NoSkip>(c, 0, 0, pos, st).unwrap() }")
    im.attr('    #[verifier::loop_isolation(false)]')
    im.attr('    #[verifier::exec_allows_no_decreases_clause]')
    im.body_start('        let ghost input0 = input;')
    im.loop(1, it='it', inv=(UNB_INV % {'sem': 'sem_repmin::<R, T, Skip>(input0.ctx(), 0, 0, input0.off(), old(stack)@.cur)'}).replace('Skip>', 'NoSkip>').replace('SKIP as nat', '0'))
    im.closure(1, params=P.STACK_PARAM, contract=P.cl_check('T'))
    im.loop_body_start(1, '''            proof {
                let i = it.index@ as nat;
                assert(unit_sem::<R, T, NoSkip>(input0.ctx(), 0, i, input.off(), stack@.cur) == T::sem(input0.ctx(), input.off(), stack@.cur)) by {
                    assert(skip_k::<R, NoSkip>(input0.ctx(), 0, input.off(), stack@.cur) == (input.off(), stack@.cur));
                }
                assert(rep_state::<R, T, NoSkip>(input0.ctx(), 0, i + 1, input0.off(), old(stack)@.cur)
                    == unit_sem::<R, T, NoSkip>(input0.ctx(), 0, i, input.off(), stack@.cur));
                if unit_sem::<R, T, NoSkip>(input0.ctx(), 0, i, input.off(), stack@.cur) is None {
                    lemma_repmin_at::<R, T, NoSkip>(input0.ctx(), 0, 0, i, input0.off(), old(stack)@.cur);
                }
            }''')
    P.hints(im)
    U.emit(im)
    im = U.impl(F, "TypedNode<'i, R> for AtomicRepeat<T>").drop_attrs()
    im.keep_methods(['try_check_partial_with'])
    im.prepend_in_block(P.semdef("Some(sem_repmin::<R, T, NoSkip>(c, 0, 0, pos, st).unwrap())"))
    U.emit(im)


UNB_INV = '''            invariant_except_break
                !vf_done,
                rep_state::<R, T, Skip>(input0.ctx(), SKIP as nat, it.index@ as nat, input0.off(), old(stack)@.cur)
                    == Some((input.off(), stack@.cur)),
            invariant
                inv(input), input.ctx() == input0.ctx(), input.off() >= input0.off(),
                stack@.snaps == old(stack)@.snaps, stack_all_wf(stack@),
            ensures
                vf_done ==> %(sem)s == Some((input.off(), stack@.cur)),'''
UNB_HINT = '''            proof {
                assert(rep_state::<R, T, Skip>(input0.ctx(), SKIP as nat, (i + 1) as nat, input0.off(), old(stack)@.cur)
                    == unit_sem::<R, T, Skip>(input0.ctx(), SKIP as nat, i as nat, input.off(), stack@.cur));
                if unit_sem::<R, T, Skip>(input0.ctx(), SKIP as nat, i as nat, input.off(), stack@.cur) is None {
                    %(lemma)s;
                }
            }'''
ATOMIC = r'''
// a skip node that skips nothing: AtomicRepeat<T> is the repetition of T without implicit skipping
pub struct NoSkip;
impl<'i, R: RuleType> NeverFailedTypedNode<'i, R> for NoSkip {
    open spec fn sem_nf(c: Ctx<'i>, pos: nat, st: Seq<Span<'i>>) -> (nat, Seq<Span<'i>>) { (pos, st) }
    fn parse_with<I: Input<'i>>(input: I, stack: &mut Stack<Span<'i>>) -> (r: (I, Self)) { (input, NoSkip) }
    fn check_with<I: Input<'i>>(input: I, stack: &mut Stack<Span<'i>>) -> (r: I) { input }
}
'''
