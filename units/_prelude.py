"""Shared ghost vocabulary (DESIGN.md §4) used by the combinator units.

Everything here is specification: spec fns, the Verus-side declarations of the traits `Input`,
`TypedNode`, `NeverFailedTypedNode` (signatures as in /repo minus the tracker argument, R1) carrying
the trait contracts, and the trusted model of `pest::Stack` (R4).  Executable bodies never come from
this file; they are extracted from /repo by the units.
"""

# ------------------------------------------------------------------------------------------------
# Contracts of the `Input` trait methods — one table, used (a) for the body-less declaration the
# combinator units see and (b) for the declaration with the real default bodies in unit `input`.
# ------------------------------------------------------------------------------------------------
INPUT_SIGS = {
    'byte_offset': ('fn byte_offset(&self) -> (r: usize)', '''
        requires self.inv(),
        ensures r == self.off(),'''),
    'input': ("fn input(&self) -> (r: &'i str)", '''
        ensures r == self.ctx().input,'''),
    'start': ('fn start(&self) -> (r: usize)', '''
        requires self.inv(),
        ensures r == self.ctx().start,'''),
    'end': ('fn end(&self) -> (r: usize)', '''
        requires self.inv(),
        ensures r == self.ctx().end,'''),
    'at_start': ('fn at_start(&self) -> (r: bool)', '''
        requires self.inv(),
        ensures r == (self.off() == self.ctx().start),'''),
    'at_end': ('fn at_end(&self) -> (r: bool)', '''
        requires self.inv(),
        ensures r == (self.off() == self.ctx().end),'''),
    'span': ("fn span(&self, end: Self) -> (r: Span<'i>)", '''
        requires self.inv(), end.inv(), self.ctx() == end.ctx(), self.off() <= end.off(),
        ensures r == (Span { input: self.ctx().input, start: self.off() as usize, end: end.off() as usize }),
                r.wf(),'''),
    'match_string': ("fn match_string(&mut self, string: &'i str) -> (res: bool)", '''
        requires old(self).inv(),
        ensures final(self).ctx() == old(self).ctx(), final(self).inv(),
                res == is_prefix(string.spec_bytes(), rest(old(self).ctx(), old(self).off())),
                res ==> final(self).off() == old(self).off() + string.spec_bytes().len(),
                !res ==> final(self).off() == old(self).off(),'''),
}


def input_trait_decl(methods):
    body = []
    for m in methods:
        sig, c = INPUT_SIGS[m]
        body.append('    ' + sig + c.rstrip() + ';\n')
    return '''
pub trait Input<'i>: Copy {
    spec fn ctx(&self) -> Ctx<'i>;
    spec fn off(&self) -> nat;
    open spec fn inv(&self) -> bool { input_inv(self.ctx(), self.off()) }
''' + ''.join(body) + '}\n'


CORE = r'''
// ---- R2: marker for pest::RuleType ---------------------------------------------------------------
pub trait RuleType: Copy {}

// ---- R4: trusted model of pest::Stack<T> (checked against the real type by Kani k_stackmodel) ------
#[verifier::external_body]
#[verifier::reject_recursive_types(T)]
pub struct Stack<T> { p: core::marker::PhantomData<T> }
pub struct StackView<T> { pub cur: Seq<T>, pub snaps: Seq<Seq<T>> }
impl<T> Stack<T> {
    pub uninterp spec fn view(&self) -> StackView<T>;
    #[verifier::external_body]
    pub fn new() -> (r: Self)
        ensures r@.cur == Seq::<T>::empty(), r@.snaps == Seq::<Seq<T>>::empty(),
    { unimplemented!() }
    #[verifier::external_body]
    pub fn len(&self) -> (r: usize)
        ensures r == self@.cur.len(),
    { unimplemented!() }
    #[verifier::external_body]
    pub fn peek(&self) -> (r: Option<&T>)
        ensures self@.cur.len() == 0 ==> r is None,
                self@.cur.len() > 0 ==> r is Some && *r->0 == self@.cur.last(),
    { unimplemented!() }
    #[verifier::external_body]
    pub fn push(&mut self, elem: T)
        ensures final(self)@.cur == old(self)@.cur.push(elem), final(self)@.snaps == old(self)@.snaps,
    { unimplemented!() }
    #[verifier::external_body]
    pub fn pop(&mut self) -> (r: Option<T>)
        ensures final(self)@.snaps == old(self)@.snaps,
                old(self)@.cur.len() == 0 ==> r is None && final(self)@.cur == old(self)@.cur,
                old(self)@.cur.len() > 0 ==> r is Some && r->0 == old(self)@.cur.last() && final(self)@.cur == old(self)@.cur.drop_last(),
    { unimplemented!() }
    #[verifier::external_body]
    pub fn snapshot(&mut self)
        ensures final(self)@.cur == old(self)@.cur, final(self)@.snaps == old(self)@.snaps.push(old(self)@.cur),
    { unimplemented!() }
    #[verifier::external_body]
    pub fn clear_snapshot(&mut self)
        ensures final(self)@.cur == old(self)@.cur,
                old(self)@.snaps.len() > 0 ==> final(self)@.snaps == old(self)@.snaps.drop_last(),
                old(self)@.snaps.len() == 0 ==> final(self)@.snaps == old(self)@.snaps,
    { unimplemented!() }
    #[verifier::external_body]
    pub fn restore(&mut self)
        ensures old(self)@.snaps.len() > 0 ==> final(self)@.cur == old(self)@.snaps.last() && final(self)@.snaps == old(self)@.snaps.drop_last(),
                old(self)@.snaps.len() == 0 ==> final(self)@.cur == Seq::<T>::empty() && final(self)@.snaps == old(self)@.snaps,
    { unimplemented!() }
}

// ---- spans, contexts, the remaining input -----------------------------------------------------------
pub struct Span<'i> { pub input: &'i str, pub start: usize, pub end: usize }
impl<'i> Span<'i> {
    pub open spec fn wf(&self) -> bool {
        self.start <= self.end && self.end <= self.input.spec_bytes().len()
        && is_char_boundary(self.input.spec_bytes(), self.start as int)
        && is_char_boundary(self.input.spec_bytes(), self.end as int)
    }
    pub open spec fn text(&self) -> Seq<u8> { self.input.spec_bytes().subrange(self.start as int, self.end as int) }
}
pub struct Ctx<'i> { pub input: &'i str, pub start: nat, pub end: nat }
pub open spec fn bytes_of(c: Ctx) -> Seq<u8> { c.input.spec_bytes() }
pub open spec fn ctx_wf(c: Ctx) -> bool {
    c.start <= c.end && c.end <= bytes_of(c).len() && bytes_of(c).len() <= usize::MAX
    && is_char_boundary(bytes_of(c), c.start as int) && is_char_boundary(bytes_of(c), c.end as int)
}
pub open spec fn input_inv(c: Ctx, pos: nat) -> bool {
    ctx_wf(c) && c.start <= pos && pos <= c.end && is_char_boundary(bytes_of(c), pos as int)
}
pub open spec fn rest(c: Ctx, pos: nat) -> Seq<u8> { bytes_of(c).subrange(pos as int, c.end as int) }
pub open spec fn is_prefix(p: Seq<u8>, s: Seq<u8>) -> bool { p.len() <= s.len() && s.subrange(0, p.len() as int) == p }
pub open spec fn stack_wf(st: Seq<Span>) -> bool { forall|k: int| 0 <= k < st.len() ==> (#[trigger] st[k]).wf() }
pub open spec fn stack_all_wf(v: StackView<Span>) -> bool {
    stack_wf(v.cur) && forall|k: int| 0 <= k < v.snaps.len() ==> stack_wf(#[trigger] v.snaps[k])
}
pub type Res<'i> = Option<(nat, Seq<Span<'i>>)>;
'''

TRAITS = r'''
// ---- trait contracts (typed_node.rs:19-48, signatures minus tracker) --------------------------------
// `sem`/`sem_nf` is the PEG denotation of the node: (offset, stack contents) after a match, None = no match.
// Both methods get the same postcondition over the same `sem` — agreement of parse and check (C03) is
// a consequence of the two contracts, never of the bodies.
pub open spec fn post_some<'i, I: Input<'i>>(input: I, st0: StackView<Span<'i>>, out: I, st1: StackView<Span<'i>>, p: nat, s: Seq<Span<'i>>) -> bool {
    out.ctx() == input.ctx() && out.off() == p && out.inv() && p >= input.off()
    && st1.cur == s && st1.snaps == st0.snaps && stack_all_wf(st1)
}
pub open spec fn post_none<'i>(st0: StackView<Span<'i>>, st1: StackView<Span<'i>>) -> bool {
    // after a failed match the stack *contents* are deliberately unspecified (the code leaves what the
    // failing attempt did; only restore_on_none / predicates clean up) — snapshots are balanced, spans valid.
    st1.snaps == st0.snaps && stack_all_wf(st1)
}
pub trait NeverFailedTypedNode<'i, R: RuleType>: Sized {
    spec fn sem_nf(c: Ctx<'i>, pos: nat, st: Seq<Span<'i>>) -> (nat, Seq<Span<'i>>);
    fn parse_with<I: Input<'i>>(input: I, stack: &mut Stack<Span<'i>>) -> (r: (I, Self))
        requires input.inv(), stack_all_wf(old(stack)@),
        ensures post_some(input, old(stack)@, r.0, final(stack)@,
                    Self::sem_nf(input.ctx(), input.off(), old(stack)@.cur).0, Self::sem_nf(input.ctx(), input.off(), old(stack)@.cur).1);
    fn check_with<I: Input<'i>>(input: I, stack: &mut Stack<Span<'i>>) -> (r: I)
        requires input.inv(), stack_all_wf(old(stack)@),
        ensures post_some(input, old(stack)@, r, final(stack)@,
                    Self::sem_nf(input.ctx(), input.off(), old(stack)@.cur).0, Self::sem_nf(input.ctx(), input.off(), old(stack)@.cur).1);
}
pub trait TypedNode<'i, R: RuleType>: Sized {
    spec fn sem(c: Ctx<'i>, pos: nat, st: Seq<Span<'i>>) -> Res<'i>;
    fn try_parse_partial_with<I: Input<'i>>(input: I, stack: &mut Stack<Span<'i>>) -> (r: Option<(I, Self)>)
        requires input.inv(), stack_all_wf(old(stack)@),
        ensures match Self::sem(input.ctx(), input.off(), old(stack)@.cur) {
                    Some((p, s)) => r is Some && post_some(input, old(stack)@, (r->0).0, final(stack)@, p, s),
                    None => r is None && post_none(old(stack)@, final(stack)@),
                };
    fn try_check_partial_with<I: Input<'i>>(input: I, stack: &mut Stack<Span<'i>>) -> (r: Option<I>)
        requires input.inv(), stack_all_wf(old(stack)@),
        ensures match Self::sem(input.ctx(), input.off(), old(stack)@.cur) {
                    Some((p, s)) => r is Some && post_some(input, old(stack)@, r->0, final(stack)@, p, s),
                    None => r is None && post_none(old(stack)@, final(stack)@),
                };
}
'''

# closure contracts restating the callee's trait contract (Verus does not infer closure ensures)
def cl_check(T, inp='input'):
    return ('''-> (r: Option<I>)
            requires %(i)s.inv(), stack_all_wf(old(stack)@),
            ensures match %(T)s::sem(%(i)s.ctx(), %(i)s.off(), old(stack)@.cur) {
                Some((p, s)) => r is Some && post_some(%(i)s, old(stack)@, r->0, final(stack)@, p, s),
                None => r is None && post_none(old(stack)@, final(stack)@),
            }''' % {'T': T, 'i': inp})


def cl_parse(T, inp='input'):
    return ('''-> (r: Option<(I, %(T)s)>)
            requires %(i)s.inv(), stack_all_wf(old(stack)@),
            ensures match %(T)s::sem(%(i)s.ctx(), %(i)s.off(), old(stack)@.cur) {
                Some((p, s)) => r is Some && post_some(%(i)s, old(stack)@, (r->0).0, final(stack)@, p, s),
                None => r is None && post_none(old(stack)@, final(stack)@),
            }''' % {'T': T, 'i': inp})


STACK_PARAM = "stack: &mut Stack<Span<'i>>"

RESTORE_CONTRACT = '''    requires
        stack_all_wf(old(stack)@),
        forall |s: &mut Stack<Span<'i>>| (*s)@ == old(stack)@.(|v: StackView<Span<'i>>| StackView { cur: v.cur, snaps: v.snaps.push(v.cur) }) ==> f.requires((s,)),
    ensures
        true,'''


def emit_restore_on_none(U):
    """predefined_node/mod.rs restore_on_none, verbatim, with its contract (C05 kernel)."""
    it = U.fn('main/src/predefined_node/mod.rs', 'restore_on_none').drop_attrs()
    it.ret('res')
    it.contract('''    requires
        stack_all_wf(old(stack)@),
        forall |s: &mut Stack<Span<'i>>| (*s)@.cur == old(stack)@.cur && (*s)@.snaps == old(stack)@.snaps.push(old(stack)@.cur) ==> #[trigger] f.requires((s,)),
        // the callee keeps snapshots balanced and spans valid (part of every node's contract)
        forall |s: &mut Stack<Span<'i>>, r: Option<T>| #[trigger] f.ensures((s,), r) ==> final(s)@.snaps == (*s)@.snaps && stack_all_wf(final(s)@),
    ensures
        // C05: a failed attempt leaves no trace
        res is None ==> final(stack)@.cur == old(stack)@.cur,
        final(stack)@.snaps == old(stack)@.snaps,
        stack_all_wf(final(stack)@),
        // the result, and on success the stack, are exactly f's, run on the stack as it was
        exists |s0: &mut Stack<Span<'i>>| (*s0)@.cur == old(stack)@.cur && (*s0)@.snaps == old(stack)@.snaps.push(old(stack)@.cur)
            && #[trigger] f.ensures((s0,), res) && (res is Some ==> final(stack)@.cur == final(s0)@.cur),''')
    it.after('stack.snapshot();', '''    proof {
        assert(stack@.snaps.drop_last() == old(stack)@.snaps);
        assert(stack@.snaps.last() == old(stack)@.cur);
        assert(stack_all_wf(stack@)) by {
            assert forall|k: int| 0 <= k < stack@.snaps.len() implies stack_wf(#[trigger] stack@.snaps[k]) by {
                if k < old(stack)@.snaps.len() { assert(stack@.snaps[k] == old(stack)@.snaps[k]); }
            }
        }
    }''')
    it.after('let res = f(stack);', '''    proof {
        assert(stack@.snaps.drop_last() == old(stack)@.snaps);
        assert(stack@.snaps.last() == old(stack)@.cur);
        assert(stack_wf(stack@.snaps.last()));
    }''')
    U.emit(it)
    return it
