"""Shared ghost vocabulary (DESIGN.md §4) used by the combinator units.

Everything here is specification: spec fns, the Verus-side declarations of the traits `Input`,
`TypedNode`, `NeverFailedTypedNode` (signatures as in /repo minus the tracker argument, R1) carrying
the trait contracts, and the trusted model of `pest::Stack` (R4).  Executable bodies never come from
this file; they are extracted from /repo by the units.
"""

# ------------------------------------------------------------------------------------------------
# Contracts of the `Input` trait methods — one table, used (a) for the body-less declaration the
# combinator units see and (b) for the declaration with the real default bodies in unit `input`.
# ------------------------------------------------------------------------------------------------
INPUT_SIGS = {
    'byte_offset': ('fn byte_offset(&self) -> (r: usize)', '''
        requires input_inv(self.ctx(), self.off()),
        ensures r == self.off(),'''),
    'input': ("fn input(&self) -> (r: &'i str)", '''
        ensures r == self.ctx().input,'''),
    'start': ('fn start(&self) -> (r: usize)', '''
        requires input_inv(self.ctx(), self.off()),
        ensures r == self.ctx().start,'''),
    'end': ('fn end(&self) -> (r: usize)', '''
        requires input_inv(self.ctx(), self.off()),
        ensures r == self.ctx().end,'''),
    'at_start': ('fn at_start(&self) -> (r: bool)', '''
        requires input_inv(self.ctx(), self.off()),
        ensures r == (self.off() == self.ctx().start),'''),
    'at_end': ('fn at_end(&self) -> (r: bool)', '''
        requires input_inv(self.ctx(), self.off()),
        ensures r == (self.off() == self.ctx().end),'''),
    'span': ("fn span(&self, end: Self) -> (r: Span<'i>)", '''
        requires input_inv(self.ctx(), self.off()), input_inv(end.ctx(), end.off()), self.ctx() == end.ctx(), self.off() <= end.off(),
        ensures r == (Span { input: self.ctx().input, start: self.off() as usize, end: end.off() as usize }),
                r.wf(),'''),
    'match_string': ("fn match_string(&mut self, string: &'i str) -> (res: bool)", '''
        requires input_inv(old(self).ctx(), old(self).off()),
        ensures final(self).ctx() == old(self).ctx(), input_inv(final(self).ctx(), final(self).off()),
                res == is_prefix(string.spec_bytes(), rest(old(self).ctx(), old(self).off())),
                res ==> final(self).off() == old(self).off() + string.spec_bytes().len(),
                !res ==> final(self).off() == old(self).off(),'''),
    'get': ("fn get(&self) -> (r: &'i str)", '''
        requires input_inv(self.ctx(), self.off()),
        ensures r.spec_bytes() == rest(self.ctx(), self.off()),'''),
    'cursor': ("unsafe fn cursor(&mut self) -> (r: &mut usize)", '''
        ensures *r == old(self).off(), final(self).off() == *final(r), final(self).ctx() == old(self).ctx(),'''),
    'as_position': ("fn as_position(&self) -> (r: Position<'i>)", '''
        requires input_inv(self.ctx(), self.off()),
        ensures r.input == self.ctx().input, r.pos == self.off(),
                // a Position is a cursor over the WHOLE string: its bounds are 0 and len, whatever self's were
                input_inv(Ctx { input: r.input, start: 0, end: r.input.spec_bytes().len() }, r.pos as nat),'''),
    'match_insensitive': ("fn match_insensitive(&mut self, string: &'i str) -> (res: bool)", '''
        requires input_inv(old(self).ctx(), old(self).off()),
        ensures final(self).ctx() == old(self).ctx(), input_inv(final(self).ctx(), final(self).off()),
                res == insens_prefix(string.spec_bytes(), rest(old(self).ctx(), old(self).off())),
                res ==> final(self).off() == old(self).off() + string.spec_bytes().len(),
                !res ==> final(self).off() == old(self).off(),'''),
    'chars': ("fn chars(&self) -> (r: Chars<'i>)", '''
        requires input_inv(self.ctx(), self.off()),
        ensures IteratorSpec::remaining(&r) == decode_utf8(rest(self.ctx(), self.off())), IteratorSpec::obeys_prophetic_iter_laws(&r),'''),
    'match_range': ("fn match_range(&mut self, range: Range<char>) -> (res: bool)", '''
        requires input_inv(old(self).ctx(), old(self).off()),
        ensures final(self).ctx() == old(self).ctx(), input_inv(final(self).ctx(), final(self).off()),
                res == match first_char(rest(old(self).ctx(), old(self).off())) { Some(c) => range.start <= c && c <= range.end, None => false },
                res ==> final(self).off() == old(self).off() + char_len(first_char(rest(old(self).ctx(), old(self).off()))->0),
                !res ==> final(self).off() == old(self).off(),'''),
    'next': ("fn next(&mut self) -> (res: Option<char>)", '''
        requires input_inv(old(self).ctx(), old(self).off()),
        ensures final(self).ctx() == old(self).ctx(), input_inv(final(self).ctx(), final(self).off()),
                res == first_char(rest(old(self).ctx(), old(self).off())),
                res is Some ==> final(self).off() == old(self).off() + char_len(res->0),
                res is None ==> final(self).off() == old(self).off(),'''),
    'match_char_by': ("fn match_char_by(&mut self, f: impl FnOnce(char) -> bool) -> (res: bool)", '''
        requires input_inv(old(self).ctx(), old(self).off()),
                 forall|c: char| f.requires((c,)),
        ensures final(self).ctx() == old(self).ctx(), input_inv(final(self).ctx(), final(self).off()),
                match first_char(rest(old(self).ctx(), old(self).off())) {
                    Some(c) => f.ensures((c,), res) && (res ==> final(self).off() == old(self).off() + char_len(c)),
                    None => !res,
                },
                !res ==> final(self).off() == old(self).off(),'''),
    'skip': ("fn skip(&mut self, n: usize) -> (res: bool)", '''
        requires input_inv(old(self).ctx(), old(self).off()),
        ensures final(self).ctx() == old(self).ctx(), input_inv(final(self).ctx(), final(self).off()),
                match skip_chars(rest(old(self).ctx(), old(self).off()), n as nat) {
                    Some(k) => res && final(self).off() == old(self).off() + k,
                    None => !res && final(self).off() == old(self).off(),
                },'''),
    'skip_until': ("fn skip_until(&mut self, strings: &'i [&'i str]) -> (res: bool)", '''
        requires input_inv(old(self).ctx(), old(self).off()),
        ensures final(self).ctx() == old(self).ctx(), input_inv(final(self).ctx(), final(self).off()),
                // stops at the least offset at which one of the needles is a prefix of the *remaining input*
                // (cut at the end of the sub-input: nothing at or beyond `end` may influence the outcome), else at `end`
                skip_until_stop(old(self).ctx(), strings@, old(self).off(), final(self).off()),
                res == (final(self).off() < old(self).ctx().end),'''),
}


ASINPUT_SPECS = "    // what the conversion must produce: the sub-input's bounds; `valid` = the value's own invariant\n    spec fn as_ctx(&self) -> Ctx<'i>;\n    spec fn valid(&self) -> bool;"
ASINPUT_CONTRACT = '        requires self.valid(),\n        ensures r.ctx() == self.as_ctx(), r.off() == self.as_ctx().start, input_inv(r.ctx(), r.off()),'
ASINPUT_DECL = '''
// input.rs:256-263 AsInput (contract only here; the impls are verified in unit `input`)
pub trait AsInput<'i> {
    type Output: Input<'i>;
%s
    fn as_input(&self) -> (r: Self::Output)
%s;
}
''' % (ASINPUT_SPECS, ASINPUT_CONTRACT.rstrip(','))


# the methods every unit declares (contracts only): the matchers the nodes use plus the read-only accessors, so that code
# consulting the cursor (`byte_offset`, `start`, `end`, `get`, ..) stays within the verified text
INPUT_BASIC = ['span', 'at_start', 'at_end', 'match_string', 'byte_offset', 'input', 'start', 'end', 'get']


def input_trait_decl(methods, position_impl=False):
    """Contracts-only declaration of trait Input.  position_impl=True additionally declares as_position and the
    (contracts-only, external_body) impl of Input for Position — proved in unit `input` — so that code converting a
    cursor with `as_position()` stays within the verified text and is judged against the Position's own bounds."""
    if position_impl and 'as_position' not in methods:
        methods = list(methods) + ['as_position']
    body = []
    for m in methods:
        sig, c = INPUT_SIGS[m]
        body.append('    ' + sig + c.rstrip() + ';\n')
    out = '''
pub trait Input<'i>: Copy {
    spec fn ctx(&self) -> Ctx<'i>;
    spec fn off(&self) -> nat;
''' + ''.join(body) + '''}
pub open spec fn inv<'i, I: Input<'i>>(i: I) -> bool { input_inv(i.ctx(), i.off()) }
'''
    if position_impl:
        ms = []
        for m in methods:
            sig, _ = INPUT_SIGS[m]
            ms.append('    #[verifier::external_body] ' + sig + ' { unimplemented!() }\n')
        out += '''
// contracts of trait Input for Position (bodies proved in unit `input`)
impl<'i> Clone for Position<'i> { fn clone(&self) -> Self { *self } }
impl<'i> Copy for Position<'i> {}
impl<'i> Input<'i> for Position<'i> {
    open spec fn ctx(&self) -> Ctx<'i> { Ctx { input: self.input, start: 0, end: self.input.spec_bytes().len() } }
    open spec fn off(&self) -> nat { self.pos as nat }
''' + ''.join(ms) + '}\n'
    return out


CORE = r'''
// ---- R2: marker for pest::RuleType ---------------------------------------------------------------
pub trait RuleType: Copy {}

// ---- R4: trusted model of pest::Stack<T> (checked against the real type by Kani k_stackmodel) ------
#[verifier::external_body]
#[verifier::reject_recursive_types(T)]
pub struct Stack<T> { p: core::marker::PhantomData<T> }
pub struct StackView<T> { pub cur: Seq<T>, pub snaps: Seq<Seq<T>> }
impl<T> Stack<T> {
    pub uninterp spec fn view(&self) -> StackView<T>;
    #[verifier::external_body]
    pub fn new() -> (r: Self)
        ensures r@.cur == Seq::<T>::empty(), r@.snaps == Seq::<Seq<T>>::empty(),
    { unimplemented!() }
    #[verifier::external_body]
    pub fn len(&self) -> (r: usize)
        ensures r == self@.cur.len(),
    { unimplemented!() }
    #[verifier::external_body]
    pub fn peek(&self) -> (r: Option<&T>)
        ensures self@.cur.len() == 0 ==> r is None,
                self@.cur.len() > 0 ==> r is Some && *r->0 == self@.cur.last(),
    { unimplemented!() }
    #[verifier::external_body]
    pub fn push(&mut self, elem: T)
        ensures final(self)@.cur == old(self)@.cur.push(elem), final(self)@.snaps == old(self)@.snaps,
    { unimplemented!() }
    #[verifier::external_body]
    pub fn pop(&mut self) -> (r: Option<T>)
        ensures final(self)@.snaps == old(self)@.snaps,
                old(self)@.cur.len() == 0 ==> r is None && final(self)@.cur == old(self)@.cur,
                old(self)@.cur.len() > 0 ==> r is Some && r->0 == old(self)@.cur.last() && final(self)@.cur == old(self)@.cur.drop_last(),
    { unimplemented!() }
    #[verifier::external_body]
    pub fn snapshot(&mut self)
        ensures final(self)@.cur == old(self)@.cur, final(self)@.snaps == old(self)@.snaps.push(old(self)@.cur),
    { unimplemented!() }
    #[verifier::external_body]
    pub fn clear_snapshot(&mut self)
        ensures final(self)@.cur == old(self)@.cur,
                old(self)@.snaps.len() > 0 ==> final(self)@.snaps == old(self)@.snaps.drop_last(),
                old(self)@.snaps.len() == 0 ==> final(self)@.snaps == old(self)@.snaps,
    { unimplemented!() }
    #[verifier::external_body]
    pub fn restore(&mut self)
        ensures old(self)@.snaps.len() > 0 ==> final(self)@.cur == old(self)@.snaps.last() && final(self)@.snaps == old(self)@.snaps.drop_last(),
                old(self)@.snaps.len() == 0 ==> final(self)@.cur == Seq::<T>::empty() && final(self)@.snaps == old(self)@.snaps,
    { unimplemented!() }
}

// ---- spans, contexts, the remaining input -----------------------------------------------------------
pub struct Span<'i> { pub input: &'i str, pub start: usize, pub end: usize }
impl<'i> Span<'i> {
    pub open spec fn wf(&self) -> bool {
        self.start <= self.end && self.end <= self.input.spec_bytes().len()
        && is_char_boundary(self.input.spec_bytes(), self.start as int)
        && is_char_boundary(self.input.spec_bytes(), self.end as int)
    }
    pub open spec fn text(&self) -> Seq<u8> { self.input.spec_bytes().subrange(self.start as int, self.end as int) }
}
pub struct Ctx<'i> { pub input: &'i str, pub start: nat, pub end: nat }
pub open spec fn bytes_of(c: Ctx) -> Seq<u8> { c.input.spec_bytes() }
pub open spec fn ctx_wf(c: Ctx) -> bool {
    c.start <= c.end && c.end <= bytes_of(c).len() && bytes_of(c).len() <= usize::MAX
    && is_char_boundary(bytes_of(c), c.start as int) && is_char_boundary(bytes_of(c), c.end as int)
}
pub open spec fn input_inv(c: Ctx, pos: nat) -> bool {
    ctx_wf(c) && c.start <= pos && pos <= c.end && is_char_boundary(bytes_of(c), pos as int)
}
pub open spec fn rest(c: Ctx, pos: nat) -> Seq<u8> { bytes_of(c).subrange(pos as int, c.end as int) }
pub open spec fn is_prefix(p: Seq<u8>, s: Seq<u8>) -> bool { p.len() <= s.len() && s.subrange(0, p.len() as int) == p }
pub open spec fn stack_wf(st: Seq<Span>) -> bool { forall|k: int| 0 <= k < st.len() ==> (#[trigger] st[k]).wf() }
pub open spec fn snaps_wf(sn: Seq<Seq<Span>>) -> bool { forall|k: int| 0 <= k < sn.len() ==> stack_wf(#[trigger] sn[k]) }
pub open spec fn stack_all_wf(v: StackView<Span>) -> bool { stack_wf(v.cur) && snaps_wf(v.snaps) }
// Facts about push / drop_last / last used by every snapshot-restore and push-pop argument; proved
// here once and made available everywhere (no per-statement proof hints in the extracted bodies).
pub broadcast proof fn lemma_push_drop_last<T>(s: Seq<T>, x: T)
    ensures (#[trigger] s.push(x)).drop_last() == s, s.push(x).last() == x,
{}
pub broadcast proof fn lemma_stack_wf_push(s: Seq<Span>, x: Span)
    requires stack_wf(s), x.wf(),
    ensures #[trigger] stack_wf(s.push(x)),
{
    assert forall|k: int| 0 <= k < s.push(x).len() implies (#[trigger] s.push(x)[k]).wf() by {
        if k < s.len() { assert(s.push(x)[k] == s[k]); }
    }
}
pub broadcast proof fn lemma_stack_wf_drop_last(s: Seq<Span>)
    requires stack_wf(s), s.len() > 0,
    ensures #[trigger] stack_wf(s.drop_last()), s.last().wf(),
{
    assert forall|k: int| 0 <= k < s.drop_last().len() implies (#[trigger] s.drop_last()[k]).wf() by {
        assert(s.drop_last()[k] == s[k]);
    }
}
pub broadcast proof fn lemma_stack_wf_last(s: Seq<Span>)
    requires stack_wf(s), s.len() > 0,
    ensures #[trigger] s.last().wf(),
{}
pub broadcast proof fn lemma_snaps_wf_push(sn: Seq<Seq<Span>>, c: Seq<Span>)
    requires snaps_wf(sn), stack_wf(c),
    ensures #[trigger] snaps_wf(sn.push(c)),
{
    assert forall|k: int| 0 <= k < sn.push(c).len() implies stack_wf(#[trigger] sn.push(c)[k]) by {
        if k < sn.len() { assert(sn.push(c)[k] == sn[k]); }
    }
}
pub broadcast proof fn lemma_snaps_wf_drop_last(sn: Seq<Seq<Span>>)
    requires snaps_wf(sn), sn.len() > 0,
    ensures #[trigger] snaps_wf(sn.drop_last()), stack_wf(sn.last()),
{
    assert forall|k: int| 0 <= k < sn.drop_last().len() implies stack_wf(#[trigger] sn.drop_last()[k]) by {
        assert(sn.drop_last()[k] == sn[k]);
    }
}
pub broadcast proof fn lemma_snaps_wf_last(sn: Seq<Seq<Span>>)
    requires snaps_wf(sn), sn.len() > 0,
    ensures stack_wf(#[trigger] sn.last()),
{}
pub broadcast group group_stack {
    lemma_push_drop_last, lemma_stack_wf_push, lemma_stack_wf_drop_last, lemma_stack_wf_last,
    lemma_snaps_wf_push, lemma_snaps_wf_drop_last, lemma_snaps_wf_last,
}
pub type Res<'i> = Option<(nat, Seq<Span<'i>>)>;
pub struct Position<'i> { pub input: &'i str, pub pos: usize }
pub open spec fn ascii_lower(b: u8) -> u8 { if 65 <= b <= 90 { (b + 32) as u8 } else { b } }
pub open spec fn eq_ignore_case(a: Seq<u8>, b: Seq<u8>) -> bool {
    a.len() == b.len() && forall|k: int| 0 <= k < a.len() ==> ascii_lower(#[trigger] a[k]) == ascii_lower(b[k])
}
// the remaining input has a prefix, ending on a character boundary, that equals `s` ignoring ASCII case
pub open spec fn insens_prefix(s: Seq<u8>, r: Seq<u8>) -> bool {
    s.len() <= r.len() && is_char_boundary(r, s.len() as int) && eq_ignore_case(r.subrange(0, s.len() as int), s)
}
pub open spec fn skip_until_stop(c: Ctx, needles: Seq<&str>, pos: nat, k: nat) -> bool {
    pos <= k && k <= c.end && (k == c.end || needle_at(c, needles, k)) && forall|j: nat| pos <= j < k ==> !needle_at(c, needles, j)
}
// the remaining input as scalar values (vstd::utf8::decode_utf8; defined for valid UTF-8)
pub open spec fn first_char(b: Seq<u8>) -> Option<char> { if decode_utf8(b).len() > 0 { Some(decode_utf8(b)[0]) } else { None } }
pub open spec fn char_len(c: char) -> nat { encode_scalar(c as u32).len() }
// byte length of the first n scalar values of b, None if b has fewer than n
pub open spec fn skip_chars(b: Seq<u8>, n: nat) -> Option<nat> {
    if n <= decode_utf8(b).len() { Some(encode_utf8(decode_utf8(b).subrange(0, n as int)).len()) } else { None }
}
pub open spec fn needle_at(c: Ctx, needles: Seq<&str>, k: nat) -> bool {
    k <= c.end && is_char_boundary(bytes_of(c), k as int)
    && exists|j: int| 0 <= j < needles.len() && is_prefix((#[trigger] needles[j]).spec_bytes(), rest(c, k))
}

'''

TRAITS = r'''
// ---- trait contracts (typed_node.rs:19-48, signatures minus tracker) --------------------------------
// `sem`/`sem_nf` is the PEG denotation of the node: (offset, stack contents) after a match, None = no match.
// Both methods get the same postcondition over the same `sem` — agreement of parse and check (C03) is
// a consequence of the two contracts, never of the bodies.
pub open spec fn post_some<'i, I: Input<'i>>(input: I, st0: StackView<Span<'i>>, out: I, st1: StackView<Span<'i>>, p: nat, s: Seq<Span<'i>>) -> bool {
    out.ctx() == input.ctx() && out.off() == p && inv(out) && p >= input.off()
    && st1.cur == s && st1.snaps == st0.snaps && stack_all_wf(st1)
}
pub open spec fn post_none<'i>(st0: StackView<Span<'i>>, st1: StackView<Span<'i>>) -> bool {
    // after a failed match the stack *contents* are deliberately unspecified (the code leaves what the
    // failing attempt did; only restore_on_none / predicates clean up) — snapshots are balanced, spans valid.
    st1.snaps == st0.snaps && stack_all_wf(st1)
}
pub trait NeverFailedTypedNode<'i, R: RuleType>: Sized {
    spec fn sem_nf(c: Ctx<'i>, pos: nat, st: Seq<Span<'i>>) -> (nat, Seq<Span<'i>>);
    fn parse_with<I: Input<'i>>(input: I, stack: &mut Stack<Span<'i>>) -> (r: (I, Self))
        requires inv(input), stack_all_wf(old(stack)@),
        ensures post_some(input, old(stack)@, r.0, final(stack)@,
                    Self::sem_nf(input.ctx(), input.off(), old(stack)@.cur).0, Self::sem_nf(input.ctx(), input.off(), old(stack)@.cur).1);
    fn check_with<I: Input<'i>>(input: I, stack: &mut Stack<Span<'i>>) -> (r: I)
        requires inv(input), stack_all_wf(old(stack)@),
        ensures post_some(input, old(stack)@, r, final(stack)@,
                    Self::sem_nf(input.ctx(), input.off(), old(stack)@.cur).0, Self::sem_nf(input.ctx(), input.off(), old(stack)@.cur).1);
}
pub trait TypedNode<'i, R: RuleType>: Sized {
    spec fn sem(c: Ctx<'i>, pos: nat, st: Seq<Span<'i>>) -> Res<'i>;
    // what the node built by a successful parse at (c, pos, st) exposes (C17): which alternative, which
    // character / spelling / span.  `true` for nodes that expose nothing of their own.
    spec fn node_ok(c: Ctx<'i>, pos: nat, st: Seq<Span<'i>>, end: nat, n: Self) -> bool;
    fn try_parse_partial_with<I: Input<'i>>(input: I, stack: &mut Stack<Span<'i>>) -> (r: Option<(I, Self)>)
        requires inv(input), stack_all_wf(old(stack)@),
        ensures match Self::sem(input.ctx(), input.off(), old(stack)@.cur) {
                    Some((p, s)) => r is Some && post_some(input, old(stack)@, (r->0).0, final(stack)@, p, s)
                        && Self::node_ok(input.ctx(), input.off(), old(stack)@.cur, p, (r->0).1),
                    None => r is None && post_none(old(stack)@, final(stack)@),
                };
    fn try_check_partial_with<I: Input<'i>>(input: I, stack: &mut Stack<Span<'i>>) -> (r: Option<I>)
        requires inv(input), stack_all_wf(old(stack)@),
        ensures match Self::sem(input.ctx(), input.off(), old(stack)@.cur) {
                    Some((p, s)) => r is Some && post_some(input, old(stack)@, r->0, final(stack)@, p, s),
                    None => r is None && post_none(old(stack)@, final(stack)@),
                };
}
'''

# closure contracts restating the callee's trait contract (Verus does not infer closure ensures)
def cl_check(T, inp='input'):
    return ('''-> (r: Option<I>)
            requires inv(%(i)s), stack_all_wf(old(stack)@),
            ensures match %(T)s::sem(%(i)s.ctx(), %(i)s.off(), old(stack)@.cur) {
                Some((p, s)) => r is Some && post_some(%(i)s, old(stack)@, r->0, final(stack)@, p, s),
                None => r is None && post_none(old(stack)@, final(stack)@),
            }''' % {'T': T, 'i': inp})


def cl_parse(T, inp='input'):
    return ('''-> (r: Option<(I, %(T)s)>)
            requires inv(%(i)s), stack_all_wf(old(stack)@),
            ensures match %(T)s::sem(%(i)s.ctx(), %(i)s.off(), old(stack)@.cur) {
                Some((p, s)) => r is Some && post_some(%(i)s, old(stack)@, (r->0).0, final(stack)@, p, s)
                    && %(T)s::node_ok(%(i)s.ctx(), %(i)s.off(), old(stack)@.cur, p, (r->0).1),
                None => r is None && post_none(old(stack)@, final(stack)@),
            }''' % {'T': T, 'i': inp})


def hints(item):
    """Make the stack lemmas available in every extracted body (anchor: function start)."""
    return item.body_start_all('        broadcast use group_stack;')


def semdef(sem_expr, node_ok='true'):
    """The two spec fns every TypedNode impl defines in the verified text."""
    return ("    open spec fn sem(c: Ctx<'i>, pos: nat, st: Seq<Span<'i>>) -> Res<'i> { %s }\n"
            "    open spec fn node_ok(c: Ctx<'i>, pos: nat, st: Seq<Span<'i>>, end: nat, n: Self) -> bool { %s }" % (sem_expr, node_ok))


STACK_PARAM = "stack: &mut Stack<Span<'i>>"

RESTORE_CONTRACT = '''    requires
        stack_all_wf(old(stack)@),
        forall |s: &mut Stack<Span<'i>>| (*s)@ == old(stack)@.(|v: StackView<Span<'i>>| StackView { cur: v.cur, snaps: v.snaps.push(v.cur) }) ==> f.requires((s,)),
    ensures
        true,'''


def emit_restore_on_none(U):
    """predefined_node/mod.rs restore_on_none, verbatim, with its contract (C05 kernel)."""
    it = U.fn('main/src/predefined_node/mod.rs', 'restore_on_none').drop_attrs()
    it.ret('res')
    it.contract('''    requires
        stack_all_wf(old(stack)@),
        forall |s: &mut Stack<Span<'i>>| (*s)@.cur == old(stack)@.cur && (*s)@.snaps == old(stack)@.snaps.push(old(stack)@.cur) ==> #[trigger] f.requires((s,)),
        // the callee keeps snapshots balanced and spans valid (part of every node's contract)
        forall |s: &mut Stack<Span<'i>>, r: Option<T>| #[trigger] f.ensures((s,), r) ==> final(s)@.snaps == (*s)@.snaps && stack_all_wf(final(s)@),
    ensures
        // C05: a failed attempt leaves no trace
        res is None ==> final(stack)@.cur == old(stack)@.cur,
        final(stack)@.snaps == old(stack)@.snaps,
        stack_all_wf(final(stack)@),
        // the result, and on success the stack, are exactly f's, run on the stack as it was
        exists |s0: &mut Stack<Span<'i>>| (*s0)@.cur == old(stack)@.cur && (*s0)@.snaps == old(stack)@.snaps.push(old(stack)@.cur)
            && #[trigger] f.ensures((s0,), res) && (res is Some ==> final(stack)@.cur == final(s0)@.cur),''')
    hints(it)
    U.emit(it)
    return it
