"""unit seqpar — parse path of Seq2..Seq12 (sequence.rs `seq!`, from rustc's macro expansion).
Same postcondition over the same `sem_seqN` as the check path (unit seqchk): C01/C03 (sequence = PEG concatenation,
parse agrees with check), C07 (implicit skip SKIP times before every element but the first, none before the first /
after the last), C17 (`node_ok`: the k-th field holds the node its element built at the position where that element
matched).  `core::array::from_fn(|_| ..)` (FnMut closure capturing `&mut input` / `&mut stack`) is rewritten to the
loop it stands for (R9)."""
import re
import _prelude as P
from seqchk import SKIPK, sem_seq

VERUS_FLAGS = ['--no-lifetime']
VERUS_FLAGS_WHY = 'the unit takes only the parse-path method of trait impls (the check path is unit seqchk), so the erased crate is not a complete Rust program; proofs are unaffected, no tracked/linear ghost state is used'

SHIM = r'''
// R9: collecting the results of the N evaluations, in order (std: array::from_fn fills index 0, 1, .. in order)
#[verifier::external_body]
fn shim_array_from_vec<T, const N: usize>(v: Vec<T>) -> (r: [T; N])
    requires v.len() == N,
    ensures r@ == v@,
{ match v.try_into() { Ok(a) => a, Err(_) => unreachable!() } }
'''


def node_ok_seq(n):
    body = 'true'
    for k in reversed(range(n)):
        if k == 0:
            body = 'match T0::sem(c, pos, st) { None => false, Some(r0) => T0::node_ok(c, pos, st, r0.0, n.content.0.matched) && { %s } }' % body
        else:
            body = ('{ let (q%d, t%d) = skip_k::<R, Skip>(c, SKIP as nat, r%d.0, r%d.1); match T%d::sem(c, q%d, t%d) { None => false, Some(r%d) => T%d::node_ok(c, q%d, t%d, r%d.0, n.content.%d.matched) && { %s } } }'
                    % (k, k, k - 1, k - 1, k, k, k, k, k, k, k, k, k, body))
    return body


def build(U, arities=range(2, 13)):
    U.use('vstd::string::*')
    U.use('vstd::utf8::*')
    U.use('vstd::std_specs::convert::*')
    U.ghost(P.CORE, 'core vocabulary')
    U.ghost(P.input_trait_decl(P.INPUT_BASIC), 'trait Input (contracts only)')
    U.ghost(P.TRAITS, 'trait contracts')
    U.ghost(SKIPK, 'skip_k')
    U.ghost(SHIM, 'R9 shim')
    sk = U.block_item('main/src/predefined_node/mod.rs', r'pub struct Skipped\b', 'struct Skipped').drop_attrs()
    sk.text = re.sub(r'[ \t]*#\[derive\([^\]]*\)\]\n?', '', sk.text)
    sk.log.append(('R5', 'derive attribute dropped'))
    U.emit(sk, under_contract=False)
    for n in arities:
        U.ghost(sem_seq(n), 'sem of %d-ary sequence' % n)
        st = U.block_item('expanded', r'pub struct Seq%d<' % n, 'struct Seq%d' % n).drop_attrs()
        U.emit(st, under_contract=False)
        tn = ', '.join('T%d' % k for k in range(n))
        U.ghost("impl<%s> FromSpecImpl<(%s,)> for Seq%d<%s> { open spec fn obeys_from_spec() -> bool { true } open spec fn from_spec(content: (%s,)) -> Self { Self { content } } }"
                % (tn, tn, n, tn, tn), 'From spec')
        U.emit(U.impl('expanded', "From<(%s)> for Seq%d<%s>" % (tn, n, tn)).drop_attrs(), under_contract=False)
        im = U.impl('expanded', "TypedNode<'i, R> for Seq%d<" % n).drop_attrs()
        im.keep_methods(['try_parse_partial_with'])
        im.rw_from_fn('SKIP', 'Skip', expect=n)
        im.prepend_in_block(P.semdef("sem_seq%d::<R, %s, Skip>(c, SKIP as nat, pos, st)" % (n, tn), node_ok_seq(n)))
        im.attr('    #[verifier::loop_isolation(false)]', fname='try_parse_partial_with')
        im.body_start("        let ghost input0 = input;", fname='try_parse_partial_with')
        im.loop(1, it='it', inv="""                    invariant vf_arr.len() == it.index@,""")
        for j in range(1, n):
            im.before_loop(j + 1, "        let ghost p%d = input.off(); let ghost s%d = stack@.cur;" % (j, j))
            im.loop(j + 1, it='it', inv="""                    invariant
                        vf_arr.len() == it.index@,
                        inv(input), input.ctx() == input0.ctx(), input.off() >= input0.off(),
                        stack@.snaps == old(stack)@.snaps, stack_all_wf(stack@),
                        skip_k::<R, Skip>(input0.ctx(), (SKIP - it.index@) as nat, input.off(), stack@.cur)
                            == skip_k::<R, Skip>(input0.ctx(), SKIP as nat, p%d, s%d),""" % (j, j))
            im.loop_body_start(j + 1, """                        proof {
                            let k = (SKIP - it.index@) as nat;
                            assert(k > 0);
                            assert(skip_k::<R, Skip>(input0.ctx(), k, input.off(), stack@.cur) == ({
                                let (p, s) = Skip::sem_nf(input0.ctx(), input.off(), stack@.cur);
                                skip_k::<R, Skip>(input0.ctx(), (k - 1) as nat, p, s) }));
                        }""")
        P.hints(im)
        U.emit(im)
