"""unit slicefn — the helper functions of the stack slice nodes verified with their bodies: stack_slice, peek_spans
(both instantiations, R10), and the outlined expression `S.iter().rev()`.  Unit `slices` takes peek_spans_rev and the
outlined expression contract-only (same contract text, built from the same constants) — see slices.py."""
import slices


def build(U):
    slices.build(U, nodes=False)
