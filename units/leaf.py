"""unit leaf — terminal nodes (predefined_node/mod.rs): Str, Insens, Skip, SkipChar, CharRange, ANY, NEWLINE,
Empty, AlwaysFail.  (The free function match_char_by used by the Unicode property nodes captures `&mut res` in a
closure, which Verus rejects: those ~260 macro-generated nodes are the only TypedNode impls of the crate not under contract.)
C01 (each terminal = its PEG denotation over rest(ctx, off)), C03, C17 (leaf contents: the character of a range /
ANY node, the actual spelling of an insensitive match, the kind of NEWLINE, span text of skip nodes)."""
import re
import _prelude as P
from input import UTF8

SEM = r'''
pub open spec fn sem_str<'i>(s: Seq<u8>, c: Ctx<'i>, pos: nat, st: Seq<Span<'i>>) -> Res<'i> {
    if is_prefix(s, rest(c, pos)) { Some((pos + s.len(), st)) } else { None }
}
pub open spec fn sem_insens<'i>(s: Seq<u8>, c: Ctx<'i>, pos: nat, st: Seq<Span<'i>>) -> Res<'i> {
    if insens_prefix(s, rest(c, pos)) { Some((pos + s.len(), st)) } else { None }
}
pub open spec fn sem_range<'i>(lo: char, hi: char, c: Ctx<'i>, pos: nat, st: Seq<Span<'i>>) -> Res<'i> {
    match first_char(rest(c, pos)) {
        Some(ch) => if lo <= ch && ch <= hi { Some((pos + char_len(ch), st)) } else { None },
        None => None,
    }
}
pub open spec fn sem_any<'i>(c: Ctx<'i>, pos: nat, st: Seq<Span<'i>>) -> Res<'i> {
    match first_char(rest(c, pos)) { Some(ch) => Some((pos + char_len(ch), st)), None => None }
}
pub open spec fn sem_skipchar<'i>(n: nat, c: Ctx<'i>, pos: nat, st: Seq<Span<'i>>) -> Res<'i> {
    match skip_chars(rest(c, pos), n) { Some(k) => Some((pos + k, st)), None => None }
}
// skip-until: the least offset at which a needle starts, else the end of the (sub-)input; never fails
pub open spec fn sem_skip<'i>(needles: Seq<&str>, c: Ctx<'i>, pos: nat, st: Seq<Span<'i>>) -> Res<'i> {
    if exists|k: nat| skip_until_stop(c, needles, pos, k) { Some((choose|k: nat| skip_until_stop(c, needles, pos, k), st)) } else { None }
}
// NEWLINE = "\r\n" | "\n" | "\r" in that order
pub open spec fn sem_newline<'i>(c: Ctx<'i>, pos: nat, st: Seq<Span<'i>>) -> Res<'i> {
    if is_prefix(seq![13u8, 10u8], rest(c, pos)) { Some((pos + 2, st)) }
    else if is_prefix(seq![10u8], rest(c, pos)) { Some((pos + 1, st)) }
    else if is_prefix(seq![13u8], rest(c, pos)) { Some((pos + 1, st)) }
    else { None }
}
pub proof fn lemma_skip_stop_unique(c: Ctx, needles: Seq<&str>, pos: nat, k1: nat, k2: nat)
    requires skip_until_stop(c, needles, pos, k1), skip_until_stop(c, needles, pos, k2),
    ensures k1 == k2,
{
    if k1 < k2 { assert(!needle_at(c, needles, k1)); }
    if k2 < k1 { assert(!needle_at(c, needles, k2)); }
}
pub trait StringWrapper { const CONTENT: &'static str; }
pub trait StringArrayWrapper { const CONTENT: &'static [&'static str]; }
'''


def struct(U, name, f='main/src/predefined_node/mod.rs'):
    it = U.block_item(f, r'pub (struct|enum) %s\b' % name, 'struct ' + name, std=False).drop_attrs()
    t = re.sub(r'[ \t]*#\[(derive|debug)\([^\]]*\)\]\n?', '', it.text)
    if re.search(r'^\s*_phantom:', t, re.M):
        t = re.sub(r'^(\s*)_phantom:', r'\1pub _phantom:', t, flags=re.M)
        it.log.append(('R2', 'field _phantom made pub (Verus treats a struct with a private field as opaque in specs)'))
    it.text = t
    it.log.append(('R5', 'derive/debug attributes dropped'))
    U.emit(it, under_contract=False)
    return it


def build(U):
    U.use('vstd::string::*')
    U.use('vstd::utf8::*')
    U.use('core::marker::PhantomData')
    U.use('core::ops::Range')
    U.use('vstd::std_specs::convert::*')
    U.use('vstd::std_specs::iter::*')
    U.use('core::str::Chars')
    F = 'main/src/predefined_node/mod.rs'
    U.ghost(P.CORE, 'core vocabulary')
    U.ghost(P.input_trait_decl(P.INPUT_BASIC + ['match_insensitive', 'skip_until', 'skip', 'match_range', 'match_char_by', 'next']), 'trait Input (contracts only)')
    U.ghost(P.TRAITS, 'trait contracts')
    U.ghost(SEM, 'denotations of terminals')
    U.ghost(UTF8, 'UTF-8 lemmas (proved; same text as in unit input)')
    U.ghost('''impl<'i> Span<'i> {
    #[verifier::external_body]
    pub fn as_str(&self) -> (r: &'i str)
        requires self.wf(),
        ensures r.spec_bytes() == self.text(),
    { unimplemented!() }
}''', 'Span::as_str contract (body verified in unit input)')

    # ---- Str ------------------------------------------------------------------------------------------------
    struct(U, 'Str')
    im = U.impl(F, "TypedNode<'i, R> for Str<T>").drop_attrs()
    im.prepend_in_block(P.semdef("sem_str(T::CONTENT.spec_bytes(), c, pos, st)"))
    U.emit(U.impl(F, 'StringWrapper for Str<T>').drop_attrs(), under_contract=False)
    U.emit(U.impl(F, 'From<()> for Str<T>').drop_attrs(), under_contract=False)
    U.emit(im)

    # ---- Insens: content is the actual spelling (the consumed slice) ------------------------------------------------
    struct(U, 'Insens')
    U.emit(U.impl(F, "StringWrapper for Insens<'i, T>").drop_attrs(), under_contract=False)
    U.ghost("impl<'i, T: StringWrapper> FromSpecImpl<&'i str> for Insens<'i, T> { open spec fn obeys_from_spec() -> bool { false } open spec fn from_spec(content: &'i str) -> Self { arbitrary() } }", 'From spec')
    fi = U.impl(F, "From<&'i str> for Insens<'i, T>").drop_attrs()
    fi.ret('r', fname='from'); fi.contract('        ensures r.content == content,', fname='from')
    U.emit(fi, under_contract=False)
    im = U.impl(F, "TypedNode<'i, R> for Insens<'i, T>").drop_attrs()
    # C17: the node exposes the actual spelling = the text consumed
    im.prepend_in_block(P.semdef("sem_insens(T::CONTENT.spec_bytes(), c, pos, st)", "n.content.spec_bytes() == bytes_of(c).subrange(pos as int, end as int)"))
    U.emit(im)

    # ---- CharRange / ANY: content is the first scalar of the remaining input -------------------------------------------
    struct(U, 'CharRange')
    im = U.impl(F, "TypedNode<'i, R> for CharRange<MIN, MAX>").drop_attrs()
    im.prepend_in_block(P.semdef("sem_range(MIN, MAX, c, pos, st)", "Some(n.content) == first_char(rest(c, pos))"))
    im.body_start('''        proof {
            let r = rest(input.ctx(), input.off());
            lemma_str_valid(input.ctx().input);
            lemma_sub_boundary(bytes_of(input.ctx()), input.off() as int, input.ctx().end as int, 0);
            lemma_first_char(r);
            match first_char(r) {
                Some(c) => {
                    lemma_encode_single(c);
                    encode_utf8_decode_utf8(seq![c]);
                    assert(r.subrange(0, char_len(c) as int) =~= bytes_of(input.ctx()).subrange(input.off() as int, (input.off() + char_len(c)) as int));
                }
                None => {}
            }
            assert forall|s: &str| decode_utf8(#[trigger] s.spec_bytes()) == s@ by { lemma_str_chars(s); }
        }''', fname='try_parse_partial_with')
    U.emit(im)

    struct(U, 'ANY')
    im = U.impl(F, "TypedNode<'i, R> for ANY").drop_attrs()
    im.prepend_in_block(P.semdef("sem_any(c, pos, st)", "Some(n.content) == first_char(rest(c, pos))"))
    # `.map(|c| ..)` on Option with a closure capturing `input`: give vstd's Option::map a spec'd closure
    im.closure(1, params='c: char', contract="-> (o: (I, ANY)) ensures o.0 == input, o.1.content == c", fname='try_parse_partial_with')
    im.closure(1, params='_c: char', contract="-> (o: I) ensures o == input", fname='try_check_partial_with')
    U.emit(im)

    # ---- SkipChar / Skip ---------------------------------------------------------------------------------------------------
    struct(U, 'SkipChar')
    im = U.impl(F, "TypedNode<'i, R> for SkipChar<'i, N>").drop_attrs()
    im.prepend_in_block(P.semdef("sem_skipchar(N as nat, c, pos, st)", "n.span == (Span { input: c.input, start: pos as usize, end: end as usize })"))
    U.emit(im)

    struct(U, 'Skip')
    U.emit(U.impl(F, "StringArrayWrapper for Skip<'i, Strings>").drop_attrs(), under_contract=False)
    U.ghost("impl<'i, Strings: StringArrayWrapper> FromSpecImpl<Span<'i>> for Skip<'i, Strings> { open spec fn obeys_from_spec() -> bool { false } open spec fn from_spec(span: Span<'i>) -> Self { arbitrary() } }", 'From spec')
    fi = U.impl(F, "From<Span<'i>> for Skip<'i, Strings>").drop_attrs()
    fi.ret('r', fname='from'); fi.contract('        ensures r.span == span,', fname='from')
    U.emit(fi, under_contract=False)
    im = U.impl(F, "TypedNode<'i, R> for Skip<'i, Strings>").drop_attrs()
    for fn in ('try_parse_partial_with', 'try_check_partial_with'):
        im.body_start('''        proof {
            assert forall|k1: nat, k2: nat| #[trigger] skip_until_stop(input.ctx(), Strings::CONTENT@, input.off(), k1)
                && #[trigger] skip_until_stop(input.ctx(), Strings::CONTENT@, input.off(), k2) implies k1 == k2 by {
                lemma_skip_stop_unique(input.ctx(), Strings::CONTENT@, input.off(), k1, k2);
            }
        }''', fname=fn)
    im.prepend_in_block(P.semdef("sem_skip(Strings::CONTENT@, c, pos, st)", "n.span == (Span { input: c.input, start: pos as usize, end: end as usize })"))
    U.emit(im)

    # ---- NEWLINE ---------------------------------------------------------------------------------------------------------------
    struct(U, 'NewLineType')
    struct(U, 'NEWLINE')
    im = U.impl(F, "TypedNode<'i, R> for NEWLINE").drop_attrs()
    # C17: the kind of NEWLINE is the alternative consumed, CRLF preferred
    im.prepend_in_block(P.semdef("sem_newline(c, pos, st)", """match n.content {
            NewLineType::CRLF => is_prefix(seq![13u8, 10u8], rest(c, pos)),
            NewLineType::LF => is_prefix(seq![10u8], rest(c, pos)),
            NewLineType::CR => is_prefix(seq![13u8], rest(c, pos)) && !is_prefix(seq![13u8, 10u8], rest(c, pos)),
        }"""))
    im.body_start('        proof { lemma_newline_literals(); }', fname='try_parse_partial_with')
    im.body_start('        proof { lemma_newline_literals(); }', fname='try_check_partial_with')
    U.ghost(r'''
// the three string literals of NEWLINE as bytes (vstd gives literals as chars; their UTF-8 encoding is ASCII)
pub proof fn lemma_newline_scalars()
    ensures encode_scalar(10u32) == seq![10u8], encode_scalar(13u32) == seq![13u8],
{
    assert(encode_scalar(10u32) =~= seq![10u8]) by (compute);
    assert(encode_scalar(13u32) =~= seq![13u8]) by (compute);
}
pub proof fn lemma_newline_literals()
    ensures "\r\n".spec_bytes() == seq![13u8, 10u8], "\n".spec_bytes() == seq![10u8], "\r".spec_bytes() == seq![13u8],
{
    reveal_strlit("\r\n"); reveal_strlit("\n"); reveal_strlit("\r");
    assert("\n"@ =~= seq!['\n']);
    assert("\r"@ =~= seq!['\r']);
    assert("\r\n"@ =~= seq!['\r'] + seq!['\n']);
    lemma_encode_single('\n'); lemma_encode_single('\r');
    lemma_newline_scalars(); assert('\n' as u32 == 10u32); assert('\r' as u32 == 13u32);
    encode_utf8_concat(seq!['\r'], seq!['\n']);
    assert(seq![13u8] + seq![10u8] =~= seq![13u8, 10u8]);
}''', 'newline literals')
    U.emit(im)

    # ---- Empty / AlwaysFail -------------------------------------------------------------------------------------------------------
    struct(U, 'AlwaysFail')
    im = U.impl(F, "TypedNode<'i, R> for AlwaysFail<'i>").drop_attrs()
    im.prepend_in_block(P.semdef("None"))
    U.emit(im)

