"""unit rules — the rule-kind macros of rule.rs (impl_try_parse_with! Span / Both / Expression arms, impl_parse! arm
selection, rule_eoi!), expanded by rustc from invocations with the arguments the generator passes
(/verif/verus/rule_invocations.rs: atomic, compound-atomic, non-atomic, normal, silent, EOI), over an *abstract*
inner node `VInner` and skip node `VSkip` (arbitrary denotations).
C07: a rule struct adds no skip at its start or end (its denotation is exactly its inner expression's);
C03: an atomic (span-only) rule parses through the check path and covers the same span;
C04: atomic and compound-atomic entry rules use the non-skipping full-input wrapper, every other kind the skipping one."""
import re
import _prelude as P
import wrappers

ABSTRACT = r'''
// ---- abstract inner expression / skip expression: any node satisfying the trait contracts ------------------------
pub enum VRule { EOI, A, C, N, X, S }
impl Clone for VRule { fn clone(&self) -> Self { *self } }
impl Copy for VRule {}
impl RuleType for VRule {}
pub struct VInner { _p: () }
pub uninterp spec fn vinner_sem<'i>(c: Ctx<'i>, pos: nat, st: Seq<Span<'i>>) -> Res<'i>;
pub uninterp spec fn vinner_ok<'i>(c: Ctx<'i>, pos: nat, st: Seq<Span<'i>>, end: nat, n: VInner) -> bool;
impl<'i> TypedNode<'i, VRule> for VInner {
    open spec fn sem(c: Ctx<'i>, pos: nat, st: Seq<Span<'i>>) -> Res<'i> { vinner_sem(c, pos, st) }
    open spec fn node_ok(c: Ctx<'i>, pos: nat, st: Seq<Span<'i>>, end: nat, n: Self) -> bool { vinner_ok(c, pos, st, end, n) }
    #[verifier::external_body]
    fn try_parse_partial_with<I: Input<'i>>(input: I, stack: &mut Stack<Span<'i>>) -> (r: Option<(I, Self)>) { unimplemented!() }
    #[verifier::external_body]
    fn try_check_partial_with<I: Input<'i>>(input: I, stack: &mut Stack<Span<'i>>) -> (r: Option<I>) { unimplemented!() }
}
pub struct VSkip<'i> { _p: core::marker::PhantomData<&'i str> }
pub uninterp spec fn vskip_sem<'i>(c: Ctx<'i>, pos: nat, st: Seq<Span<'i>>) -> (nat, Seq<Span<'i>>);
impl<'i> NeverFailedTypedNode<'i, VRule> for VSkip<'i> {
    open spec fn sem_nf(c: Ctx<'i>, pos: nat, st: Seq<Span<'i>>) -> (nat, Seq<Span<'i>>) { vskip_sem(c, pos, st) }
    #[verifier::external_body]
    fn parse_with<I: Input<'i>>(input: I, stack: &mut Stack<Span<'i>>) -> (r: (I, Self)) { unimplemented!() }
    #[verifier::external_body]
    fn check_with<I: Input<'i>>(input: I, stack: &mut Stack<Span<'i>>) -> (r: I) { unimplemented!() }
}
pub trait RuleWrapper<R: RuleType> { const RULE: R; type Rule; }
// typed_node.rs:51-107 ParsableTypedNode (the two required methods), with the full-match contract of C04:
// `atomic_entry` is fixed per rule kind from the statement of the property (no trailing skip for atomic and
// compound-atomic entry rules), not from the macro.
pub trait ParsableTypedNode<'i, R: RuleType>: TypedNode<'i, R> {
    spec fn full(c: Ctx<'i>, pos: nat, st: Seq<Span<'i>>) -> bool;
    fn try_parse_with<I: Input<'i>>(input: I, stack: &mut Stack<Span<'i>>) -> (r: Option<Self>)
        requires inv(input), stack_all_wf(old(stack)@),
        ensures (r is Some) == Self::full(input.ctx(), input.off(), old(stack)@.cur);
    fn try_check_with<I: Input<'i>>(input: I, stack: &mut Stack<Span<'i>>) -> (r: bool)
        requires inv(input), stack_all_wf(old(stack)@),
        ensures r == Self::full(input.ctx(), input.off(), old(stack)@.cur);
}
// `content.into()` with source type = target type (rule_inner!(.., false)): the identity conversion
#[verifier::external_body]
fn shim_into_same<T>(x: T) -> (r: T) ensures r == x, { x.into() }
'''

SPAN_OK = "n.span == (Span { input: c.input, start: pos as usize, end: end as usize })"
KINDS = [
    # name, inner type, emission, atomic entry?
    ('VAtomic', 'VInner', 'Span', True),
    ('VCompound', 'VInner', 'Both', True),
    ('VNonAtomic', 'VInner', 'Both', False),
    ('VNormal', 'VInner', 'Both', False),
    ('VSilent', 'VInner', 'Expression', False),
    ('VEoi', 'EOI', 'Both', True),
]


def build(U):
    wrappers.emit(U)
    U.use('core::marker::PhantomData')
    U.ghost(ABSTRACT, 'abstract inner / skip nodes, ParsableTypedNode contract')
    for name, inner, emission, atomic in KINDS:
        st = U.block_item('expanded', r'pub struct %s<' % name, 'struct ' + name).drop_attrs()
        st.text = re.sub(r'^(\s*)_phantom:', r'\1pub _phantom:', st.text, flags=re.M)
        U.emit(st, under_contract=False)
        im = U.impl('expanded', "RuleWrapper<VRule> for %s<'i, INHERITED>" % name).drop_attrs()
        U.emit(im, under_contract=False)
        im = U.impl('expanded', "TypedNode<'i, VRule> for %s<'i, INHERITED>" % name).drop_attrs()
        if emission != 'Span':
            im.rw('R3', 'content.into()', 'shim_into_same(content)')
        if inner == 'EOI':
            # R1b: with the tracker erased rustc cannot infer EOI's rule type parameter
            im.rw('R1b', r'<EOI>::(try_\w+)\(', r"<EOI as TypedNode<'i, VRule>>::\1(", count=2, regex=True)
        sem = 'vinner_sem(c, pos, st)' if inner == 'VInner' else 'sem_eoi(c, pos, st)'
        ok_inner = 'vinner_ok(c, pos, st, end, n.content)' if inner == 'VInner' else 'true'
        ok = {'Span': SPAN_OK, 'Both': SPAN_OK + ' && ' + ok_inner, 'Expression': ok_inner}[emission]
        # C07: the rule struct's denotation is exactly the inner expression's: no skip before or after
        im.prepend_in_block(P.semdef(sem, ok))
        U.emit(im)
        hdr = "ParsableTypedNode<'i, VRule> for %s<'i, %s>" % (name, 'INHERITED' if name == 'VEoi' else '1')
        im = U.impl('expanded', hdr).drop_attrs()
        full = ("full_ok_atomic::<VRule, Self>(c, pos, st)" if atomic else "full_ok::<VRule, Self, VSkip<'i>>(c, pos, st)")
        im.prepend_in_block("    open spec fn full(c: Ctx<'i>, pos: nat, st: Seq<Span<'i>>) -> bool { %s }" % full)
        U.emit(im)
