"""unit rules — the rule-kind macros of rule.rs (impl_try_parse_with! Span / Both / Expression arms, impl_parse! arm
selection, rule_eoi!), expanded by rustc from invocations with the arguments the generator passes
(/verif/verus/rule_invocations.rs: atomic, compound-atomic, non-atomic, normal, silent, EOI), over an *abstract*
inner node `VInner` and skip node `VSkip` (arbitrary denotations).
C07: a rule struct adds no skip at its start or end (its denotation is exactly its inner expression's);
C03: an atomic (span-only) rule parses through the check path and covers the same span;
C04: atomic and compound-atomic entry rules use the non-skipping full-input wrapper, every other kind the skipping one."""
import re
import _prelude as P
import wrappers

ABSTRACT = r'''
// ---- abstract inner expression / skip expression: any node satisfying the trait contracts ------------------------
pub enum VRule { EOI, A, C, N, X, S }
impl Clone for VRule { fn clone(&self) -> Self { *self } }
impl Copy for VRule {}
impl RuleType for VRule {}
pub struct VInner { _p: () }
pub uninterp spec fn vinner_sem<'i>(c: Ctx<'i>, pos: nat, st: Seq<Span<'i>>) -> Res<'i>;
pub uninterp spec fn vinner_ok<'i>(c: Ctx<'i>, pos: nat, st: Seq<Span<'i>>, end: nat, n: VInner) -> bool;
impl<'i> TypedNode<'i, VRule> for VInner {
    open spec fn sem(c: Ctx<'i>, pos: nat, st: Seq<Span<'i>>) -> Res<'i> { vinner_sem(c, pos, st) }
    open spec fn node_ok(c: Ctx<'i>, pos: nat, st: Seq<Span<'i>>, end: nat, n: Self) -> bool { vinner_ok(c, pos, st, end, n) }
    #[verifier::external_body]
    fn try_parse_partial_with<I: Input<'i>>(input: I, stack: &mut Stack<Span<'i>>) -> (r: Option<(I, Self)>) { unimplemented!() }
    #[verifier::external_body]
    fn try_check_partial_with<I: Input<'i>>(input: I, stack: &mut Stack<Span<'i>>) -> (r: Option<I>) { unimplemented!() }
}
pub struct VSkip<'i> { _p: core::marker::PhantomData<&'i str> }
pub uninterp spec fn vskip_sem<'i>(c: Ctx<'i>, pos: nat, st: Seq<Span<'i>>) -> (nat, Seq<Span<'i>>);
impl<'i> NeverFailedTypedNode<'i, VRule> for VSkip<'i> {
    open spec fn sem_nf(c: Ctx<'i>, pos: nat, st: Seq<Span<'i>>) -> (nat, Seq<Span<'i>>) { vskip_sem(c, pos, st) }
    #[verifier::external_body]
    fn parse_with<I: Input<'i>>(input: I, stack: &mut Stack<Span<'i>>) -> (r: (I, Self)) { unimplemented!() }
    #[verifier::external_body]
    fn check_with<I: Input<'i>>(input: I, stack: &mut Stack<Span<'i>>) -> (r: I) { unimplemented!() }
}
pub trait RuleWrapper<R: RuleType> { const RULE: R; type Rule; }
// error value of the Result-returning entry points: opaque (R1c: `Box::new(tracker.collect())` is erased with the tracker)
#[verifier::external_body]
#[verifier::reject_recursive_types(R)]
pub struct Error<R> { _p: core::marker::PhantomData<R> }
#[verifier::external_body]
fn vf_error<R>() -> (r: Box<Error<R>>) { unimplemented!() }
// `content.into()` with source type = target type (rule_inner!(.., false)): the identity conversion
#[verifier::external_body]
fn shim_into_same<T>(x: T) -> (r: T) ensures r == x, { x.into() }
'''

SPAN_OK = "n.span == (Span { input: c.input, start: pos as usize, end: end as usize })"
KINDS = [
    # name, inner type, emission, atomic entry?
    ('VAtomic', 'VInner', 'Span', True),
    ('VCompound', 'VInner', 'Both', True),
    ('VNonAtomic', 'VInner', 'Both', False),
    ('VNormal', 'VInner', 'Both', False),
    ('VSilent', 'VInner', 'Expression', False),
    ('VEoi', 'EOI', 'Both', True),
]


def build(U):
    wrappers.emit(U)
    U.use('core::marker::PhantomData')
    U.ghost(P.ASINPUT_DECL, 'trait AsInput (contract only)')
    U.ghost(ABSTRACT, 'abstract inner / skip nodes')
    # ---- trait ParsableTypedNode with its real default methods (typed_node.rs:51-108) --------------------------------
    tr = U.block_item('main/src/typed_node.rs', r"pub trait ParsableTypedNode<'i, R: RuleType>", 'trait ParsableTypedNode').drop_attrs()
    tr.text = __import__('vgen').r1_tracker(tr.text.replace('Box::new(tracker.collect())', 'VF_ERR'), tr.log).replace('VF_ERR', 'vf_error::<R>()')
    tr.log.append(('R1c', 'Err(Box::new(tracker.collect())) -> Err(vf_error::<R>())  x4 (error value erased with the tracker)'))
    tr.prepend_in_block('''    // C04: the full match of this rule kind; fixed per rule kind from the statement of the property
    // (no trailing skip for atomic and compound-atomic entry rules), not from the macro
    spec fn full(c: Ctx<'i>, pos: nat, st: Seq<Span<'i>>) -> bool;''')
    REQ = '        requires inv(input), stack_all_wf(old(stack)@),'
    tr.ret('r', fname='try_parse_with'); tr.contract(REQ + '\n        ensures (r is Some) == Self::full(input.ctx(), input.off(), old(stack)@.cur),', fname='try_parse_with')
    tr.ret('r', fname='try_check_with'); tr.contract(REQ + '\n        ensures r == Self::full(input.ctx(), input.off(), old(stack)@.cur),', fname='try_check_with')
    # entry points: fresh stack per call (C18), delegate to the rule's own full / partial match (C04, C03)
    ENTRY = '        requires input.valid(),\n        ensures (r is Ok) == %s,'
    FULL = "Self::full(input.as_ctx(), input.as_ctx().start, Seq::<Span<'i>>::empty())"
    PART = "(Self::sem(input.as_ctx(), input.as_ctx().start, Seq::<Span<'i>>::empty()) is Some)"
    tr.ret('r', fname='try_parse'); tr.contract(ENTRY % FULL, fname='try_parse')
    tr.ret('r', fname='try_check'); tr.contract(ENTRY % FULL, fname='try_check')
    tr.ret('r', fname='try_parse_partial')
    tr.contract(ENTRY % PART + "\n                r is Ok ==> (r->Ok_0).0.off() == (Self::sem(input.as_ctx(), input.as_ctx().start, Seq::<Span<'i>>::empty())->0).0,", fname='try_parse_partial')
    tr.ret('r', fname='try_check_partial')
    tr.contract(ENTRY % PART + "\n                r is Ok ==> (r->Ok_0).off() == (Self::sem(input.as_ctx(), input.as_ctx().start, Seq::<Span<'i>>::empty())->0).0,", fname='try_check_partial')
    for fn in ('try_parse', 'try_check', 'try_parse_partial', 'try_check_partial'):
        tr.body_start("        proof { assert(stack_all_wf(StackView::<Span<'i>> { cur: Seq::empty(), snaps: Seq::empty() })); }", fname=fn)
    U.emit(tr)
    # ---- trait TypedParser (lib.rs): the generated parser's entry points delegate to the node's own (C04) --------------
    U.ghost("""
// input.rs:273-279 (contract only here; the body is verified in unit `input`)
impl<'i> AsInput<'i> for &'i str {
    type Output = Position<'i>;
    open spec fn as_ctx(&self) -> Ctx<'i> { Ctx { input: *self, start: 0, end: self.spec_bytes().len() } }
    open spec fn valid(&self) -> bool { true }
    #[verifier::external_body]
    fn as_input(&self) -> Position<'i> { unimplemented!() }
}
""", "impl AsInput for &str (contract only)")
    tp = U.block_item('main/src/lib.rs', r"pub trait TypedParser<R: RuleType>", 'trait TypedParser').drop_attrs()
    tp.keep_methods(['try_parse', 'try_check'])
    tp.rw('R2', 'error::Error<R>', 'Error<R>', count=2)
    TPFULL = "T::full(Ctx { input: input, start: 0, end: input.spec_bytes().len() }, 0, Seq::<Span<'i>>::empty())"
    tp.ret('r', fname='try_parse'); tp.contract('        ensures (r is Ok) == %s,' % TPFULL, fname='try_parse')
    tp.ret('r', fname='try_check'); tp.contract('        ensures (r is Ok) == %s,' % TPFULL, fname='try_check')
    U.emit(tp)
    for name, inner, emission, atomic in KINDS:
        st = U.block_item('expanded', r'pub struct %s<' % name, 'struct ' + name).drop_attrs()
        st.text = re.sub(r'^(\s*)_phantom:', r'\1pub _phantom:', st.text, flags=re.M)
        U.emit(st, under_contract=False)
        im = U.impl('expanded', "RuleWrapper<VRule> for %s<'i, INHERITED>" % name).drop_attrs()
        U.emit(im, under_contract=False)
        im = U.impl('expanded', "TypedNode<'i, VRule> for %s<'i, INHERITED>" % name).drop_attrs()
        if emission != 'Span':
            im.rw('R3', 'content.into()', 'shim_into_same(content)')
        if inner == 'EOI':
            # R1b: with the tracker erased rustc cannot infer EOI's rule type parameter
            im.rw('R1b', r'<EOI>::(try_\w+)\(', r"<EOI as TypedNode<'i, VRule>>::\1(", count=2, regex=True)
        sem = 'vinner_sem(c, pos, st)' if inner == 'VInner' else 'sem_eoi(c, pos, st)'
        ok_inner = 'vinner_ok(c, pos, st, end, n.content)' if inner == 'VInner' else 'true'
        ok = {'Span': SPAN_OK, 'Both': SPAN_OK + ' && ' + ok_inner, 'Expression': ok_inner}[emission]
        # C07: the rule struct's denotation is exactly the inner expression's: no skip before or after
        im.prepend_in_block(P.semdef(sem, ok))
        U.emit(im)
        hdr = "ParsableTypedNode<'i, VRule> for %s<'i, %s>" % (name, 'INHERITED' if name == 'VEoi' else '1')
        im = U.impl('expanded', hdr).drop_attrs()
        full = ("full_ok_atomic::<VRule, Self>(c, pos, st)" if atomic else "full_ok::<VRule, Self, VSkip<'i>>(c, pos, st)")
        im.prepend_in_block("    open spec fn full(c: Ctx<'i>, pos: nat, st: Seq<Span<'i>>) -> bool { %s }" % full)
        U.emit(im)
