"""unit input — trait Input default methods and its three implementations (input.rs), AsInput, plus
Position::{new_unchecked, from_start, pos, span} and Span::{new_unchecked, start, end, get_input, as_str}.
C08: every matcher's result and advance is a function of rest(ctx, off) = bytes[off..end] only.
C09: the representation invariant (off and both bounds on UTF-8 boundaries inside the string) is a pre- and
postcondition of every method; unchecked slicing/constructors get it as precondition."""
import re
import _prelude as P

SHIMS = r'''
// ---- R3: std calls given a specification (body = the original expression; spec from the std docs,
//      cross-checked by Kani group k_shims) ----------------------------------------------------------------
#[verifier::external_body]
fn shim_starts_with(a: &str, b: &str) -> (r: bool)
    ensures r == is_prefix(b.spec_bytes(), a.spec_bytes()),
{ a.starts_with(b) }
#[verifier::external_body]
fn shim_get_to<'a>(a: &'a str, n: usize) -> (r: Option<&'a str>)
    ensures (r is Some) == (n <= a.spec_bytes().len() && is_char_boundary(a.spec_bytes(), n as int)),
            r is Some ==> (r->0).spec_bytes() == a.spec_bytes().subrange(0, n as int),
{ a.get(..n) }
#[verifier::external_body]
fn shim_get_from<'a>(a: &'a str, n: usize) -> (r: Option<&'a str>)
    ensures (r is Some) == (n <= a.spec_bytes().len() && is_char_boundary(a.spec_bytes(), n as int)),
            r is Some ==> (r->0).spec_bytes() == a.spec_bytes().subrange(n as int, a.spec_bytes().len() as int),
{ a.get(n..) }
#[verifier::external_body]
fn shim_get_range<'a>(a: &'a str, m: usize, n: usize) -> (r: Option<&'a str>)
    ensures (r is Some) == (m <= n && n <= a.spec_bytes().len() && is_char_boundary(a.spec_bytes(), m as int) && is_char_boundary(a.spec_bytes(), n as int)),
            r is Some ==> (r->0).spec_bytes() == a.spec_bytes().subrange(m as int, n as int),
{ a.get(m..n) }
#[verifier::external_body]
fn shim_eq_ignore_ascii_case(a: &str, b: &str) -> (r: bool)
    ensures r == eq_ignore_case(a.spec_bytes(), b.spec_bytes()),
{ a.eq_ignore_ascii_case(b) }
// `Some(needle) == hay.get(0..to)`
#[verifier::external_body]
fn shim_some_eq_get(needle: &[u8], hay: &[u8], to: usize) -> (r: bool)
    ensures r == (to <= hay@.len() && hay@.subrange(0, to as int) == needle@),
{ Some(needle) == hay.get(0..to) }
// `&s[a..]` / `s.get_unchecked(a..)` / `&s[a..b]` / `s.get_unchecked(a..b)`: the precondition is what makes the
// checked form not panic and the unchecked form defined behaviour (C09).
#[verifier::external_body]
fn shim_index_from<'a>(s: &'a str, a: usize) -> (r: &'a str)
    requires a <= s.spec_bytes().len(), is_char_boundary(s.spec_bytes(), a as int),
    ensures r.spec_bytes() == s.spec_bytes().subrange(a as int, s.spec_bytes().len() as int),
{ &s[a..] }
#[verifier::external_body]
unsafe fn shim_get_unchecked_from<'a>(s: &'a str, a: usize) -> (r: &'a str)
    requires a <= s.spec_bytes().len(), is_char_boundary(s.spec_bytes(), a as int),
    ensures r.spec_bytes() == s.spec_bytes().subrange(a as int, s.spec_bytes().len() as int),
{ unsafe { s.get_unchecked(a..) } }
#[verifier::external_body]
fn shim_index_to<'a>(s: &'a str, b: usize) -> (r: &'a str)
    requires b <= s.spec_bytes().len(), is_char_boundary(s.spec_bytes(), b as int),
    ensures r.spec_bytes() == s.spec_bytes().subrange(0, b as int),
{ &s[..b] }
#[verifier::external_body]
fn shim_index_range<'a>(s: &'a str, a: usize, b: usize) -> (r: &'a str)
    requires a <= b, b <= s.spec_bytes().len(), is_char_boundary(s.spec_bytes(), a as int), is_char_boundary(s.spec_bytes(), b as int),
    ensures r.spec_bytes() == s.spec_bytes().subrange(a as int, b as int),
{ &s[a..b] }
#[verifier::external_body]
unsafe fn shim_get_unchecked_range<'a>(s: &'a str, a: usize, b: usize) -> (r: &'a str)
    requires a <= b, b <= s.spec_bytes().len(), is_char_boundary(s.spec_bytes(), a as int), is_char_boundary(s.spec_bytes(), b as int),
    ensures r.spec_bytes() == s.spec_bytes().subrange(a as int, b as int),
{ unsafe { s.get_unchecked(a..b) } }
// cfg!(debug_assertions): either profile
#[verifier::external_body]
fn shim_cfg_debug_assertions() -> (r: bool) { cfg!(debug_assertions) }
// ptr::eq on the two input strings: modelled by value (one input object per parse)
#[verifier::external_body]
fn shim_ptr_eq(a: &str, b: &str) -> (r: bool)
    ensures r == (a == b),
{ core::ptr::eq(a, b) }
#[verifier::external_body]
fn shim_str_as_bytes<'a>(s: &'a str) -> (r: &'a [u8])
    ensures r@ == s.spec_bytes(),
{ s.as_bytes() }
'''

UTF8 = r'''
// ---- UTF-8 facts, proved from vstd's definitions (vstd::utf8) ---------------------------------------------------
pub proof fn lemma_first_scalar_shared(p: Seq<u8>, s: Seq<u8>)
    requires p.len() > 0, valid_utf8(p), is_prefix(p, s), valid_utf8(s),
    ensures length_of_first_scalar(s) == length_of_first_scalar(p), length_of_first_scalar(p) <= p.len(),
            is_prefix(pop_first_scalar(p), pop_first_scalar(s)),
            valid_utf8(pop_first_scalar(p)), valid_utf8(pop_first_scalar(s)),
{
    assert(p[0] == s.subrange(0, p.len() as int)[0]);
    assert(s[0] == p[0]);
    let l = length_of_first_scalar(p);
    let p2 = pop_first_scalar(p);
    let s2 = pop_first_scalar(s);
    assert(p2 =~= s2.subrange(0, p2.len() as int)) by {
        assert forall|k: int| 0 <= k < p2.len() implies #[trigger] p2[k] == s2.subrange(0, p2.len() as int)[k] by {
            assert(p2[k] == p[k + l]);
            assert(p[k + l] == s.subrange(0, p.len() as int)[k + l]);
        }
    }
}

pub proof fn lemma_valid_prefix_boundary(p: Seq<u8>, s: Seq<u8>)
    requires valid_utf8(p), valid_utf8(s), is_prefix(p, s),
    ensures is_char_boundary(s, p.len() as int),
    decreases p.len(),
{
    if p.len() > 0 {
        lemma_first_scalar_shared(p, s);
        lemma_valid_prefix_boundary(pop_first_scalar(p), pop_first_scalar(s));
    }
}

pub proof fn lemma_boundary_ends(b: Seq<u8>)
    requires valid_utf8(b),
    ensures is_char_boundary(b, 0), is_char_boundary(b, b.len() as int),
{
    is_char_boundary_start_end_of_seq(b);
}
// a suffix starting at a boundary is valid UTF-8
pub proof fn lemma_valid_suffix(b: Seq<u8>, a: int)
    requires valid_utf8(b), 0 <= a <= b.len(), is_char_boundary(b, a),
    ensures valid_utf8(b.subrange(a, b.len() as int)),
    decreases b.len(),
{
    if a == 0 {
        assert(b.subrange(0, b.len() as int) =~= b);
    } else {
        let l = length_of_first_scalar(b);
        let b2 = pop_first_scalar(b);
        assert(is_char_boundary(b2, a - l));
        assert(a - l >= 0);
        lemma_valid_suffix(b2, a - l);
        assert(b2.subrange(a - l, b2.len() as int) =~= b.subrange(a, b.len() as int));
    }
}
// a prefix ending at a boundary is valid UTF-8
pub proof fn lemma_valid_prefix(b: Seq<u8>, e: int)
    requires valid_utf8(b), 0 <= e <= b.len(), is_char_boundary(b, e),
    ensures valid_utf8(b.subrange(0, e)),
    decreases b.len(),
{
    let p = b.subrange(0, e);
    if e > 0 {
        let l = length_of_first_scalar(b);
        let b2 = pop_first_scalar(b);
        assert(is_char_boundary(b2, e - l));
        assert(e - l >= 0);
        lemma_valid_prefix(b2, e - l);
        assert(p[0] == b[0]);
        assert(valid_first_scalar(b));
        assert(valid_first_scalar(p)) by {
            assert(p.len() >= l);
            assert forall|k: int| 0 <= k < l implies #[trigger] p[k] == b[k] by {}
        }
        assert(length_of_first_scalar(p) == l);
        assert(pop_first_scalar(p) =~= b2.subrange(0, e - l));
    }
}
pub proof fn lemma_sub_boundary(b: Seq<u8>, a: int, e: int, k: int)
    requires valid_utf8(b), 0 <= a <= e <= b.len(), is_char_boundary(b, a), is_char_boundary(b, e), 0 <= k <= e - a,
    ensures valid_utf8(b.subrange(a, e)), is_char_boundary(b.subrange(a, e), k) == is_char_boundary(b, a + k),
{
    let suf = b.subrange(a, b.len() as int);
    lemma_valid_suffix(b, a);
    // e - a is a boundary of the suffix
    if e == b.len() { is_char_boundary_start_end_of_seq(suf); }
    else {
        is_char_boundary_iff_not_is_continuation_byte(b, e);
        if e - a == 0 { } else { is_char_boundary_iff_not_is_continuation_byte(suf, e - a); assert(suf[e - a] == b[e]); }
    }
    lemma_valid_prefix(suf, e - a);
    let sub = b.subrange(a, e);
    assert(suf.subrange(0, e - a) =~= sub);
    if k == 0 { } else if k == e - a { is_char_boundary_start_end_of_seq(sub); }
    else {
        is_char_boundary_iff_not_is_continuation_byte(sub, k);
        is_char_boundary_iff_not_is_continuation_byte(b, a + k);
        assert(sub[k] == b[a + k]);
    }
}
// the first n scalar values of a valid string end on a character boundary of it
pub proof fn lemma_chars_prefix(b: Seq<u8>, n: nat)
    requires valid_utf8(b), n <= decode_utf8(b).len(),
    ensures encode_utf8(decode_utf8(b).subrange(0, n as int)).len() <= b.len(),
            is_char_boundary(b, encode_utf8(decode_utf8(b).subrange(0, n as int)).len() as int),
            is_prefix(encode_utf8(decode_utf8(b).subrange(0, n as int)), b),
{
    let cs = decode_utf8(b);
    let (x, y) = (cs.subrange(0, n as int), cs.subrange(n as int, cs.len() as int));
    decode_utf8_encode_utf8(b);
    encode_utf8_concat(x, y);
    assert(x + y =~= cs);
    encode_utf8_valid_utf8(x);
    assert(b.subrange(0, encode_utf8(x).len() as int) =~= encode_utf8(x));
    lemma_valid_prefix_boundary(encode_utf8(x), b);
}
pub proof fn lemma_encode_single(c: char)
    ensures encode_utf8(seq![c]) == encode_scalar(c as u32),
{
    let b = seq![c];
    assert(b.drop_first() =~= Seq::<char>::empty());
    assert(encode_utf8(b.drop_first()) =~= Seq::<u8>::empty());
    assert(b[0] == c);
    assert(encode_utf8(b) =~= encode_scalar(c as u32));
}
// the first scalar value: its encoding is a prefix of the string and ends on a boundary
pub proof fn lemma_first_char(b: Seq<u8>)
    requires valid_utf8(b),
    ensures match first_char(b) {
        Some(c) => char_len(c) <= b.len() && is_char_boundary(b, char_len(c) as int) && is_prefix(encode_scalar(c as u32), b) && char_len(c) >= 1,
        None => b.len() == 0,
    },
{
    let cs = decode_utf8(b);
    decode_utf8_encode_utf8(b);
    if cs.len() > 0 {
        lemma_chars_prefix(b, 1);
        assert(cs.subrange(0, 1) =~= seq![cs[0]]);
        lemma_encode_single(cs[0]);
        // a scalar value encodes to at least one byte
        assert(char_len(cs[0]) >= 1) by { lemma_encode_scalar_nonempty(cs[0]); }
    } else {
        assert(encode_utf8(cs) =~= Seq::<u8>::empty());
    }
}
pub proof fn lemma_encode_scalar_nonempty(c: char)
    ensures encode_scalar(c as u32).len() >= 1,
{
    // chars [c] encode to a valid, non-empty first scalar
    encode_utf8_first_scalar(seq![c]);
    lemma_encode_single(c);
    encode_utf8_valid_utf8(seq![c]);
    let e = encode_utf8(seq![c]);
    assert(valid_first_scalar(e));
    assert(e.len() >= 1);
}
// chars of a `str` are the decoding of its bytes
pub proof fn lemma_str_chars(s: &str)
    ensures decode_utf8(s.spec_bytes()) == s@,
{
    encode_utf8_decode_utf8(s@);
}
// a `str` is valid UTF-8 (vstd: spec_bytes = encode_utf8 of its chars) ...
pub proof fn lemma_str_valid(s: &str)
    ensures valid_utf8(s.spec_bytes()), s.spec_bytes().len() <= usize::MAX,
{
    encode_utf8_valid_utf8(s@);
    axiom_str_len_fits_usize(s);
}
// ... and its length fits in usize (Rust invariant of slices; the only UTF-8-related fact left unproved)
#[verifier::external_body]
pub proof fn axiom_str_len_fits_usize(s: &str)
    ensures s.spec_bytes().len() <= usize::MAX,
{}
'''


def build(U):
    U.use('vstd::string::*')
    U.use('vstd::utf8::*')
    U.use('core::ops::Range')
    U.use('core::str::Chars')
    U.use('vstd::std_specs::iter::*')
    F = 'main/src/input.rs'
    U.ghost(P.CORE, 'core vocabulary')
    U.ghost(SHIMS, 'R3 shims')
    U.ghost(UTF8, 'UTF-8 lemmas')

    # ---- Span / Position pieces used by Input::span and as_position -----------------------------------------
    sp = U.impl('main/src/span.rs', "impl<'i> Span<'i>", r1=False).drop_attrs()
    sp.keep_methods(['new_unchecked', 'start', 'end', 'get_input', 'as_str'])
    sp.rw('R7', 'debug_assert!(input.get(start..end).is_some());\n', '', regex=False)
    sp.rw('R2', 'pub(crate) unsafe fn new_unchecked', 'pub unsafe fn new_unchecked')
    sp.rw_slices()
    sp.ret('r', fname='new_unchecked')
    sp.contract('''        // R7: the debug assertion of the original is the precondition (every call site must establish it)
        requires start <= end, end <= input.spec_bytes().len(), is_char_boundary(input.spec_bytes(), start as int), is_char_boundary(input.spec_bytes(), end as int),
        ensures r == (Span { input, start, end }), r.wf(),''', fname='new_unchecked')
    sp.ret('r', fname='as_str')
    sp.contract('        requires self.wf(),\n        ensures r.spec_bytes() == self.text(),', fname='as_str')
    sp.ret('r', fname='start'); sp.contract('        ensures r == self.start,', fname='start')
    sp.ret('r', fname='end'); sp.contract('        ensures r == self.end,', fname='end')
    sp.ret('r', fname='get_input'); sp.contract('        ensures r == self.input,', fname='get_input')
    U.emit(sp)

    po = U.impl('main/src/position.rs', "impl<'i> Position<'i>", r1=False).drop_attrs()
    po.keep_methods(['new_unchecked', 'from_start', 'pos', 'span'])
    po.rw('R7', 'debug_assert!(input.get(pos..).is_some());\n', '')
    po.rw('R2', 'pub(crate) unsafe fn new_unchecked', 'pub unsafe fn new_unchecked')
    po.rw('R3', 'ptr::eq(self.input, other.input)', 'shim_ptr_eq(self.input, other.input)')
    po.rw('R2', 'span::Span', 'Span', count=2)
    po.rw('R3', 'panic!("span created from positions from different inputs")', 'vpanic()')
    po.ret('r', fname='new_unchecked')
    po.contract('''        requires pos <= input.spec_bytes().len(), is_char_boundary(input.spec_bytes(), pos as int),
        ensures r.input == input, r.pos == pos,''', fname='new_unchecked')
    po.ret('r', fname='from_start'); po.contract('        ensures r.input == input, r.pos == 0,', fname='from_start')
    po.ret('r', fname='pos'); po.contract('        ensures r == self.pos,', fname='pos')
    po.ret('r', fname='span')
    po.contract('''        requires self.input == other.input, self.pos <= other.pos, other.pos <= self.input.spec_bytes().len(),
                 is_char_boundary(self.input.spec_bytes(), self.pos as int), is_char_boundary(self.input.spec_bytes(), other.pos as int),
        ensures r == (Span { input: self.input, start: self.pos, end: other.pos }), r.wf(),''', fname='span')
    U.ghost('#[verifier::external_body]\nfn vpanic() -> ! requires false, { panic!() }', 'panic! is unreachable (requires false)')
    U.emit(po)

    # ---- trait Input with its real default bodies ------------------------------------------------------------
    tr = U.block_item(F, r"pub trait Input<'i>", "trait Input", std=False).drop_attrs()
    tr.std(r1=False)


    tr.rw('R3', 'self.get().starts_with(string)', 'shim_starts_with(self.get(), string)')
    tr.rw('R3', 'Some(slice.as_bytes()) == bytes.get(0..to)', 'shim_some_eq_get(slice.as_bytes(), bytes, to)')
    tr.rw_slices(exclude=['skip'])
    tr.rw('R3', 'prefix.eq_ignore_ascii_case(string)', 'shim_eq_ignore_ascii_case(prefix, string)')
    # skip_until: `continue` inside a for loop is not supported by Verus -> R11 (same control flow without `continue`)
    tr.rw_continue_else()
    tr.attr('    #[verifier::loop_isolation(false)]', fname='skip_until')
    tr.prepend_in_block("    spec fn ctx(&self) -> Ctx<'i>;\n    spec fn off(&self) -> nat;")
    for m in ['byte_offset', 'input', 'get', 'chars', 'as_position', 'span', 'match_string', 'match_insensitive', 'skip_until', 'skip', 'match_range', 'match_char_by', 'next', 'cursor', 'start', 'end', 'at_start', 'at_end']:
        sig, c = P.INPUT_SIGS[m]
        rname = re.search(r'-> \((\w+):', sig).group(1)
        tr.ret(rname, fname=m)
        tr.contract(c.strip('\n'), fname=m)
    tr.body_start('''        proof {
            lemma_str_valid(self.ctx().input); lemma_str_valid(string);
            lemma_sub_boundary(bytes_of(self.ctx()), self.off() as int, self.ctx().end as int, 0);
            if is_prefix(string.spec_bytes(), rest(self.ctx(), self.off())) {
                lemma_valid_prefix_boundary(string.spec_bytes(), rest(self.ctx(), self.off()));
                lemma_sub_boundary(bytes_of(self.ctx()), self.off() as int, self.ctx().end as int, string.spec_bytes().len() as int);
            }
        }''', fname='match_string')
    tr.body_start('''        proof {
            lemma_str_valid(self.ctx().input);
            lemma_sub_boundary(bytes_of(self.ctx()), self.off() as int, self.ctx().end as int, 0);
            if string.spec_bytes().len() <= rest(self.ctx(), self.off()).len() {
                lemma_sub_boundary(bytes_of(self.ctx()), self.off() as int, self.ctx().end as int, string.spec_bytes().len() as int);
            }
        }''', fname='match_insensitive')
    CH = '''        proof {
            lemma_str_valid(self.ctx().input);
            lemma_sub_boundary(bytes_of(self.ctx()), self.off() as int, self.ctx().end as int, 0);
            lemma_first_char(rest(self.ctx(), self.off()));
            match first_char(rest(self.ctx(), self.off())) {
                Some(c) => { lemma_sub_boundary(bytes_of(self.ctx()), self.off() as int, self.ctx().end as int, char_len(c) as int); }
                None => {}
            }
        }'''
    for m in ('match_range', 'match_char_by', 'next'):
        tr.body_start(CH, fname=m)
    tr.body_start('''        proof {
            lemma_str_valid(self.ctx().input);
            lemma_sub_boundary(bytes_of(self.ctx()), self.off() as int, self.ctx().end as int, 0);
            assert forall|s: &str| decode_utf8(#[trigger] s.spec_bytes()) == s@ by { lemma_str_chars(s); }
        }''', fname='chars')
    tr.body_start('''        proof {
            lemma_str_valid(self.ctx().input);
            lemma_boundary_ends(bytes_of(self.ctx()));
        }''', fname='as_position')
    tr.body_start('''        let ghost c = self.ctx(); let ghost off0 = self.off();
        proof { lemma_str_valid(c.input); }''', fname='skip_until')
    tr.loop(1, it='it', fname='skip_until', inv='''            invariant self.ctx() == c, self.off() == off0, input_inv(c, off0), off0 <= from <= c.end,
                forall|j: nat| off0 <= j < from ==> !needle_at(c, strings@, j),''')
    tr.loop(2, it='it2', fname='skip_until', inv='''                invariant self.ctx() == c, self.off() == off0,
                    it2.seq().len() == strings@.len(),
                    forall|k: int| 0 <= k < it2.seq().len() ==> *it2.seq()[k] == strings@[k],
                    forall|k: int| 0 <= k < it2.index@ ==> !is_prefix(strings@[k].spec_bytes(), rest(c, from as nat)),''')
    tr.loop_body_start(2, '                proof { lemma_str_valid(*slice); }', fname='skip_until')
    tr.attr('    #[verifier::loop_isolation(false)]', fname='skip')
    tr.body_start('''        proof {
            lemma_str_valid(self.ctx().input);
            lemma_sub_boundary(bytes_of(self.ctx()), self.off() as int, self.ctx().end as int, 0);
        }
        let ghost r = rest(self.ctx(), self.off());
        let ghost cs = decode_utf8(r);''', fname='skip')
    tr.loop(1, it='it', fname='skip', inv='''                invariant
                    IteratorSpec::remaining(&chars) == cs.subrange(it.index@ as int, cs.len() as int), it.index@ <= cs.len(),
                    IteratorSpec::obeys_prophetic_iter_laws(&chars),
                    len == encode_utf8(cs.subrange(0, it.index@ as int)).len(), len <= r.len(),
                    is_char_boundary(bytes_of(self.ctx()), self.off() + len),''')
    tr.loop_body_start(1, '''                    proof {
                        let i = it.index@ as int;
                        if i < cs.len() {
                            let (a, b) = (cs.subrange(0, i), seq![cs[i]]);
                            encode_utf8_concat(a, b);
                            assert(a + b =~= cs.subrange(0, i + 1));
                            lemma_encode_single(cs[i]);
                            lemma_chars_prefix(r, (i + 1) as nat);
                            lemma_sub_boundary(bytes_of(self.ctx()), self.off() as int, self.ctx().end as int, encode_utf8(cs.subrange(0, i + 1)).len() as int);
                        }
                    }''', fname='skip')
    U.emit(tr)
    U.ghost("pub open spec fn inv<'i, I: Input<'i>>(i: I) -> bool { input_inv(i.ctx(), i.off()) }", 'inv')

    # ---- impl Input for Position / SubInput1 / SubInput2 ---------------------------------------------------------
    for name, ctx_spec, off in [
        ('Position', "Ctx { input: self.input, start: 0, end: self.input.spec_bytes().len() }", 'self.pos'),
        ('SubInput1', "Ctx { input: self.input, start: self.start as nat, end: self.input.spec_bytes().len() }", 'self.cursor'),
        ('SubInput2', "Ctx { input: self.input, start: self.start as nat, end: self.end as nat }", 'self.cursor'),
    ]:
        if name != 'Position':
            st = U.block_item(F, r'pub struct %s\b' % name, 'struct ' + name, std=False).drop_attrs()
            st.text = re.sub(r'[ \t]*#\[derive\([^\]]*\)\]\n?', '', st.text)
            st.log.append(('R5', 'derive(Clone, Copy) attribute replaced by the impls below'))
            U.emit(st, under_contract=False)
            U.ghost("impl<'i> Clone for %s<'i> { fn clone(&self) -> Self { *self } }\nimpl<'i> Copy for %s<'i> {}" % (name, name), 'derive(Clone, Copy)')
        im = U.impl(F, "Input<'i> for %s<'i>" % name, r1=False).drop_attrs()
        if name == 'Position':
            im.drop_fns(['next'])   # Position's override of next() calls skip(1): covered by Kani (k_input), see DESIGN
        idx = 'self.pos' if name == 'Position' else 'self.cursor'
        im.rw('R3', 'cfg!(debug_assertions)', 'shim_cfg_debug_assertions()')
        im.rw_slices()
        vis = 'open' if name == 'Position' else 'closed'   # SubInput fields are private
        im.prepend_in_block("    %s spec fn ctx(&self) -> Ctx<'i> { %s }\n    %s spec fn off(&self) -> nat { %s as nat }" % (vis, ctx_spec, vis, off))
        U.emit(im)
    U.ghost("impl<'i> Clone for Position<'i> { fn clone(&self) -> Self { *self } }\nimpl<'i> Copy for Position<'i> {}", 'derive(Clone, Copy) of Position')

    # ---- AsInput ---------------------------------------------------------------------------------------------------
    tr = U.block_item(F, r"pub trait AsInput<'i>", 'trait AsInput', std=False).drop_attrs()
    tr.prepend_in_block(P.ASINPUT_SPECS)
    tr.ret('r', fname='as_input')
    tr.contract(P.ASINPUT_CONTRACT, fname='as_input')
    U.emit(tr)
    for hdr, ctx_spec, valid in [
        ("AsInput<'i> for &'i str", "Ctx { input: *self, start: 0, end: self.spec_bytes().len() }", 'true'),
        ("AsInput<'i> for Position<'i>", "Ctx { input: self.input, start: self.pos as nat, end: self.input.spec_bytes().len() }",
         'self.pos <= self.input.spec_bytes().len() && is_char_boundary(self.input.spec_bytes(), self.pos as int)'),
        ("AsInput<'i> for Span<'i>", "Ctx { input: self.input, start: self.start as nat, end: self.end as nat }", 'self.wf()'),
    ]:
        im = U.impl(F, hdr, r1=False).drop_attrs()
        im.prepend_in_block("    open spec fn as_ctx(&self) -> Ctx<'i> { %s }\n    open spec fn valid(&self) -> bool { %s }" % (ctx_spec, valid))
        im.body_start('        proof { lemma_str_valid(self.as_ctx().input); lemma_boundary_ends(self.as_ctx().input.spec_bytes()); }')
        U.emit(im)
