"""unit fmt — FormatOption::ceil_log10 (formatter.rs): the width of the line-number column (C14)."""
import _prelude as P


def build(U):
    U.ghost('''
// number of decimal digits of n
pub open spec fn digits(n: nat) -> nat
    decreases n
{
    if n < 10 { 1 } else { 1 + digits(n / 10) }
}''', 'decimal digits')
    f = U.fn('main/src/formatter.rs', 'ceil_log10').drop_attrs()
    f.ret('r')
    f.contract('''        ensures r == digits(num as nat),''')
    f.loop(1, '''            invariant
                digit >= 1, digit - 1 + digits(i as nat) == digits(num as nat),
                digit + i <= num + 1,   // no overflow of `digit += 1`
            decreases i,''')
    U.emit(f)
