"""unit choice — Choice2..Choice12 (choices.rs, taken from rustc's macro expansion), both paths.
C05 (each alternative runs on the state before the failed ones), C01/C03 (ordered choice = PEG choice;
parse and check meet the same contract), C17 (the variant built is the first alternative that matches)."""
import _prelude as P


def sem_choice(n):
    ts = ', '.join("T%d: TypedNode<'i, R>" % k for k in range(n))
    body = 'None'
    for k in reversed(range(n)):
        body = 'match T%d::sem(c, pos, st) { Some(r) => Some(r), None => %s }' % (k, body)
    return ("pub open spec fn sem_choice%d<'i, R: RuleType, %s>(c: Ctx<'i>, pos: nat, st: Seq<Span<'i>>) -> Res<'i> {\n    %s\n}\n"
            % (n, ts, body))


def first_match(n):
    """node_ok of a choice (C17): the variant built is k  <=>  alternatives 0..k-1 fail and k matches."""
    arms = []
    for k in range(n):
        conds = ['T%d::sem(c, pos, st) is None' % j for j in range(k)]
        conds.append('T%d::sem(c, pos, st) is Some' % k)
        arms.append('Choice%d::_%d(_) => %s' % (n, k, ' && '.join(conds)))
    return 'match n { ' + ', '.join(arms) + ' }'


def build(U, arities=range(2, 13)):
    U.use('vstd::string::*')
    U.use('vstd::utf8::*')
    U.ghost(P.CORE, 'core vocabulary')
    U.ghost(P.input_trait_decl(P.INPUT_BASIC), 'trait Input (contracts only)')
    U.ghost(P.TRAITS, 'trait contracts')
    P.emit_restore_on_none(U)
    for n in arities:
        U.ghost(sem_choice(n), 'sem of %d-ary ordered choice' % n)
        en = U.block_item('expanded', r'pub enum Choice%d<' % n, 'enum Choice%d' % n).drop_attrs()
        U.emit(en, under_contract=False)
        tl = ', '.join('T%d' % k for k in range(n))
        im = U.impl('expanded', "TypedNode<'i, R> for Choice%d<%s>" % (n, tl)).drop_attrs()
        im.prepend_in_block(P.semdef("sem_choice%d::<R, %s>(c, pos, st)" % (n, tl), first_match(n)))
        for k in range(n):
            im.closure(k + 1, params=P.STACK_PARAM, contract=P.cl_parse('T%d' % k), fname='try_parse_partial_with')
            im.closure(k + 1, params=P.STACK_PARAM, contract=P.cl_check('T%d' % k), fname='try_check_partial_with')
        P.hints(im)
        U.emit(im)
