"""unit comb — restore_on_none, Option<T>, (T1,T2), [T;N] check path (typed_node.rs, predefined_node/mod.rs).
C05 (no trace of a failed optional), C03 (parse and check meet the same contract), C19 (pair/array/optional)."""
import _prelude as P

SEM = r'''
pub open spec fn sem_opt<'i, R: RuleType, T: TypedNode<'i, R>>(c: Ctx<'i>, pos: nat, st: Seq<Span<'i>>) -> Res<'i> {
    match T::sem(c, pos, st) { Some(r) => Some(r), None => Some((pos, st)) }
}
pub open spec fn sem_pair<'i, R: RuleType, T1: TypedNode<'i, R>, T2: TypedNode<'i, R>>(c: Ctx<'i>, pos: nat, st: Seq<Span<'i>>) -> Res<'i> {
    match T1::sem(c, pos, st) { Some((p, s)) => T2::sem(c, p, s), None => None }
}
// N-fold concatenation of T
pub open spec fn sem_times<'i, R: RuleType, T: TypedNode<'i, R>>(c: Ctx<'i>, n: nat, pos: nat, st: Seq<Span<'i>>) -> Res<'i>
    decreases n
{
    if n == 0 { Some((pos, st)) } else {
        match T::sem(c, pos, st) { Some((p, s)) => sem_times::<R, T>(c, (n - 1) as nat, p, s), None => None }
    }
}
'''


SHIM = r'''
// R3: `vec.try_into()` (Vec<T> -> Result<[T; N], Vec<T>>); body is the original expression.
#[verifier::external_body]
fn shim_vec_try_into_array<T, const N: usize>(vec: Vec<T>) -> (r: Result<[T; N], Vec<T>>)
    ensures r is Ok <==> vec.len() == N,
{ vec.try_into() }
'''


def build(U):
    U.use('vstd::string::*')
    U.use('vstd::utf8::*')
    U.ghost(P.CORE, 'core vocabulary')
    U.ghost(P.input_trait_decl(P.INPUT_BASIC), 'trait Input (contracts only)')
    U.ghost(P.TRAITS, 'trait contracts')
    P.emit_restore_on_none(U)
    U.ghost(SEM, 'sem of optional / pair / array')
    U.ghost(SHIM, 'R3 shim: Vec<T> -> [T; N]')

    # ---- Option<T> ------------------------------------------------------------------------------
    im = U.impl('main/src/typed_node.rs', "TypedNode<'i, R> for Option<T>").drop_attrs()
    im.prepend_in_block(P.semdef("sem_opt::<R, T>(c, pos, st)", "match n { Some(x) => T::sem(c, pos, st) is Some && T::node_ok(c, pos, st, end, x), None => T::sem(c, pos, st) is None }"))
    im.closure(1, params=P.STACK_PARAM, contract=P.cl_parse('T'), fname='try_parse_partial_with')
    im.closure(1, params=P.STACK_PARAM, contract=P.cl_check('T'), fname='try_check_partial_with')
    P.hints(im)
    U.emit(im)

    # ---- (T1, T2) -------------------------------------------------------------------------------
    im = U.impl('main/src/typed_node.rs', "TypedNode<'i, R> for (T1, T2)").drop_attrs()
    im.prepend_in_block(P.semdef("sem_pair::<R, T1, T2>(c, pos, st)"))
    P.hints(im)
    U.emit(im)

    # ---- [T; N], check path (the parse path builds a Vec and converts: see unit comb_arr) ---------
    im = U.impl('main/src/typed_node.rs', "TypedNode<'i, R> for [T; N]").drop_attrs()
    im.rw('R3', 'vec.try_into()', 'shim_vec_try_into_array::<T, N>(vec)')
    im.prepend_in_block(P.semdef("sem_times::<R, T>(c, N as nat, pos, st)"))
    INV = """            invariant
                inv(input), input.ctx() == input0.ctx(), input.off() >= input0.off(),
                stack@.snaps == old(stack)@.snaps, stack_all_wf(stack@),
                sem_times::<R, T>(input0.ctx(), (N - it.index@) as nat, input.off(), stack@.cur)
                    == sem_times::<R, T>(input0.ctx(), N as nat, input0.off(), old(stack)@.cur),"""
    UNF = """            proof {
                let n = (N - it.index@) as nat;
                assert(n > 0);
                assert(sem_times::<R, T>(input0.ctx(), n, input.off(), stack@.cur)
                    == match T::sem(input0.ctx(), input.off(), stack@.cur) {
                        Some((p, s)) => sem_times::<R, T>(input0.ctx(), (n - 1) as nat, p, s),
                        None => None,
                    });
            }"""
    im.attr('    #[verifier::loop_isolation(false)]', fname='try_parse_partial_with')
    im.body_start("        let ghost input0 = input;", fname='try_parse_partial_with')
    im.loop(1, it='it', inv=INV + "\n                vec.len() == it.index@,", fname='try_parse_partial_with')
    im.before('let (next, res) = T::try_parse_partial_with(input, stack)?;', UNF)
    im.attr('    #[verifier::loop_isolation(false)]', fname='try_check_partial_with')
    im.body_start("        let ghost input0 = input;", fname='try_check_partial_with')
    im.loop(1, fname='try_check_partial_with', it='it', inv=INV)
    im.before('let next = T::try_check_partial_with(input, stack)?;', UNF)
    P.hints(im)
    U.emit(im)
