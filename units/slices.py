"""unit slices — stack slice nodes (predefined_node/mod.rs): stack_slice, peek_spans, PEEK_ALL, POP_ALL, PeekSlice1, PeekSlice2.
C06: PEEK[a..b] matches the entries a..b of the stack from the bottom entry of the slice to its top entry, an empty or
inverted range matches the empty string, an out-of-range bound makes the expression fail (never panic: the slice index
is a proved precondition); PEEK_ALL / POP_ALL match the whole stack from top to bottom, POP_ALL empties it.
C01/C03: both paths against the same denotation.

Rewrites beyond the standard ones:
 R10  peek_spans takes `impl Iterator<Item = &Span>`; Verus's for-loop protocol handles the two concrete iterator types
      its call sites pass (slice::Iter, Rev<slice::Iter>) but not the generic parameter, so the function text is
      instantiated once per call-site type (what rustc's monomorphisation does) and the call sites are renamed.
 R3   `stack[r]` -> shim_stack_slice(stack, r) (pest::Stack: Index<Range<usize>>, part of the Stack model R4);
      `core::slice::Iter::default()` -> shim_empty_slice_iter().
 R1b  `PEEK_ALL::try_*` -> `<PEEK_ALL<'i> as TypedNode<'i, R>>::try_*` (rule type no longer inferable once the tracker is erased)."""
import re
import _prelude as P


def hints(item):
    return item.body_start_all('        broadcast use group_stack; broadcast use group_slices;')
from idx import GHOST as IDX_GHOST
from nodes import struct

GHOST = r'''
// matching the texts of xs[0], xs[1], .. one after the other from pos
pub open spec fn match_seq<'i>(c: Ctx<'i>, pos: nat, xs: Seq<Span<'i>>) -> Option<nat>
    decreases xs.len()
{
    if xs.len() == 0 { Some(pos) }
    else if is_prefix(xs[0].text(), rest(c, pos)) { match_seq(c, pos + xs[0].text().len(), xs.subrange(1, xs.len() as int)) }
    else { None }
}
pub open spec fn derefs<'s, 'i>(xs: Seq<&'s Span<'i>>) -> Seq<Span<'i>> { xs.map_values(|x: &'s Span<'i>| *x) }
// PEEK_ALL: the whole stack, top entry first
pub open spec fn sem_peek_all<'i>(c: Ctx<'i>, pos: nat, st: Seq<Span<'i>>) -> Res<'i> {
    match match_seq(c, pos, st.reverse()) { Some(p) => Some((p, st)), None => None }
}
pub open spec fn sem_pop_all<'i>(c: Ctx<'i>, pos: nat, st: Seq<Span<'i>>) -> Res<'i> {
    match match_seq(c, pos, st.reverse()) { Some(p) => Some((p, Seq::<Span<'i>>::empty())), None => None }
}
// PEEK[a..b] / PEEK[a..]: indices normalised as in C06 (spec_constrain, unit idx); out of range fails; an empty or
// inverted range matches the empty string; otherwise the entries a..b, bottom entry of the slice first
pub open spec fn sem_peek_slice<'i>(c: Ctx<'i>, pos: nat, st: Seq<Span<'i>>, start: int, end: Option<int>) -> Res<'i> {
    match spec_constrain(start, end, st.len() as int) {
        None => None,
        Some((a, b)) => if b <= a { Some((pos, st)) } else {
            match match_seq(c, pos, st.subrange(a as int, b as int)) { Some(p) => Some((p, st)), None => None }
        },
    }
}
// constrain_idxs: contract only here; the body is verified in unit `idx`
#[verifier::external_body]
fn constrain_idxs(start: i32, end: Option<i32>, len: usize) -> (r: Option<Range<usize>>)
    requires len <= i32::MAX,
    ensures
        match spec_constrain(start as int, match end { Some(e) => Some(e as int), None => None }, len as int) {
            Some((a, b)) => r is Some && r->0.start == a && r->0.end == b && a <= len && b <= len,
            None => r is None,
        },
{ unimplemented!() }
// Span::as_str (span.rs:232) — contract only here; the body is verified in unit `spanpos`.
impl<'i> Span<'i> {
    #[verifier::external_body]
    pub fn as_str(&self) -> (r: &'i str)
        requires self.wf(),
        ensures r.spec_bytes() == self.text(),
    { unimplemented!() }
}
// R4 (Stack model, continued): `stack[range]` is the slice of the current contents; std panics unless start <= end <= len
#[verifier::external_body]
fn shim_stack_slice<'s, T>(stack: &'s Stack<T>, range: Range<usize>) -> (r: &'s [T])
    requires range.start <= range.end, range.end <= stack@.cur.len(),
    ensures r@ == stack@.cur.subrange(range.start as int, range.end as int),
        range.start == 0 && range.end == stack@.cur.len() ==> r@ == stack@.cur,
{ unimplemented!() }
// R3: `core::slice::Iter::default()` is the empty iterator
#[verifier::external_body]
fn shim_empty_slice_iter<'s, T>() -> (r: core::slice::Iter<'s, T>)
    ensures IteratorSpec::remaining(&r).len() == 0, IteratorSpec::obeys_prophetic_iter_laws(&r), IteratorSpec::decrease(&r) is Some,
{ core::slice::Iter::default() }
@@OUTLINED@@
// Assumption (D6): a stack holds at most i32::MAX entries (normalize_index computes `len as i32`); 2^31 spans are 48 GiB
#[verifier::external_body]
proof fn axiom_stack_depth_fits_i32<T>(s: &Stack<T>)
    ensures s@.cur.len() <= i32::MAX,
{ }
pub broadcast proof fn lemma_stack_wf_subrange(s: Seq<Span>, a: int, b: int)
    requires stack_wf(s), 0 <= a <= b <= s.len(),
    ensures stack_wf(#[trigger] s.subrange(a, b)),
{
    assert forall|k: int| 0 <= k < s.subrange(a, b).len() implies (#[trigger] s.subrange(a, b)[k]).wf() by { assert(s.subrange(a, b)[k] == s[a + k]); }
}
pub broadcast proof fn lemma_stack_wf_reverse(s: Seq<Span>)
    requires stack_wf(s),
    ensures stack_wf(#[trigger] s.reverse()),
{
    assert forall|k: int| 0 <= k < s.reverse().len() implies (#[trigger] s.reverse()[k]).wf() by { assert(s.reverse()[k] == s[s.len() - 1 - k]); }
}
pub broadcast proof fn lemma_stack_wf_empty<'i>()
    ensures stack_wf(#[trigger] Seq::<Span<'i>>::empty()),
{ }
pub broadcast proof fn lemma_empty_by_len<'i>(s: Seq<Span<'i>>)
    requires #[trigger] s.len() == 0,
    ensures s == Seq::<Span<'i>>::empty(),
{ assert(s =~= Seq::<Span<'i>>::empty()); }
pub broadcast group group_slices { lemma_stack_wf_subrange, lemma_stack_wf_reverse, lemma_stack_wf_empty, lemma_empty_by_len }
pub proof fn lemma_match_seq_wf<'i>(c: Ctx<'i>, pos: nat, xs: Seq<Span<'i>>)
    requires match_seq(c, pos, xs) is Some,
    ensures match_seq(c, pos, xs)->0 >= pos,
    decreases xs.len()
{
    if xs.len() > 0 { lemma_match_seq_wf(c, pos + xs[0].text().len(), xs.subrange(1, xs.len() as int)); }
}
'''

OUTLINED_SIG = '''fn outlined_iter_rev<'s, 'i>(s: &'s [Span<'i>]) -> (r: core::iter::Rev<core::slice::Iter<'s, Span<'i>>>)
    ensures IteratorSpec::obeys_prophetic_iter_laws(&r), IteratorSpec::decrease(&r) is Some,
        derefs(IteratorSpec::remaining(&r)) == s@.reverse(),
'''
# R3 (outlined): the expression `S.iter().rev()`.  Verus verifies functions that are reachable from a trait impl of the
# unit without vstd's specification of Rev<slice::Iter> (they verify as soon as no trait impl calls them), so the unit
# with the node impls (`slices`) takes this function and peek_spans_rev contract-only and unit `slicefn` verifies the
# same texts against the same contracts.
OUTLINED_VERIFIED = '// R3 (outlined, body = the original expression, VERIFIED here)\n' + OUTLINED_SIG + '{ let r = s.iter().rev(); proof { assert(derefs(IteratorSpec::remaining(&r)) =~= s@.reverse()); } r }\n'
OUTLINED_STUB = '// R3 (outlined; contract only here, verified in unit `slicefn`)\n#[verifier::external_body]\n' + OUTLINED_SIG + '{ unimplemented!() }\n'

PEEK_CONTRACT = '''    requires inv(input), IteratorSpec::obeys_prophetic_iter_laws(&iter), IteratorSpec::decrease(&iter) is Some,
        stack_wf(derefs(IteratorSpec::remaining(&iter))),
    ensures match match_seq(input.ctx(), input.off(), derefs(IteratorSpec::remaining(&iter))) {
            Some(p) => r is Some && (r->0).0.ctx() == input.ctx() && (r->0).0.off() == p && inv((r->0).0) && p >= input.off()
                && (r->0).1 == (Span { input: input.ctx().input, start: input.off() as usize, end: p as usize }) && (r->0).1.wf(),
            None => r is None,
        },'''


def peek_spans(U, F, suffix, ty, stub=False):
    f = U.fn(F, 'peek_spans').drop_attrs()
    f.rw('R10', 'fn peek_spans<', 'fn peek_spans_%s<' % suffix)
    f.rw('R10', "iter: impl Iterator<Item = &'s Span<'i>>", 'iter: ' + ty)
    f.name = 'peek_spans_' + suffix
    if stub:
        f.stub_body('slicefn')
        f.ret('r')
        f.contract(PEEK_CONTRACT)
        return f
    f.ret('r')
    f.contract(PEEK_CONTRACT)
    f.attr('#[verifier::loop_isolation(false)]')
    f.body_start('    let ghost rem = derefs(IteratorSpec::remaining(&iter));')
    f.before_loop(1, '    proof { assert(rem.subrange(0, rem.len() as int) == rem); }')
    f.loop(1, it='it', inv='''        invariant
            derefs(it.seq()) == rem, it.index@ <= rem.len(),
            inv(matching_pos), matching_pos.ctx() == input.ctx(), matching_pos.off() >= input.off(),
            match_seq(input.ctx(), matching_pos.off(), rem.subrange(it.index@ as int, rem.len() as int)) == match_seq(input.ctx(), input.off(), rem),''')
    f.loop_body_start(1, '''        proof {
            let k = it.index@ as int;
            let tail = rem.subrange(k, rem.len() as int);
            assert(tail[0] == rem[k]);
            assert(tail.subrange(1, tail.len() as int) == rem.subrange(k + 1, rem.len() as int));
            assert(*span == rem[k]);
        }''')
    return f


def stack_rewrites(it, calls=True):
    """R3: every `stack[E]` -> shim_stack_slice(stack, E); `<that>.iter().rev()` -> outlined_iter_rev(<that>);
    R10: a call of peek_spans is renamed to the instantiation matching the iterator built in the same function
    (Rev<slice::Iter> if the function reverses, slice::Iter otherwise)."""
    from rsx import Src, find_code
    t, k = re.subn(r'\bstack\[([^\[\]]+)\]', r'shim_stack_slice(stack, \1)', it.text)
    if k:
        it.log.append(('R3', 'stack[E] -> shim_stack_slice(stack, E)  x%d' % k))
    t, k = re.subn(r'(shim_stack_slice\(stack, [^;\n]*?\)|\b[A-Za-z_]\w*(?:\.[A-Za-z_]\w*)*)\.iter\(\)\.rev\(\)', r'outlined_iter_rev(\1)', t)
    if k:
        it.log.append(('R3', 'S.iter().rev() -> outlined_iter_rev(S)  x%d' % k))
    if calls:
        sx = Src(t, it.name)
        spans = []
        for m in find_code(sx.text, sx.mask, r'\bfn\s+(\w+)', regex=True):
            st, sig_end, bo, bc = sx.find_fn(m.group(1))
            spans.append((bo, bc))
        out, last = '', 0
        for bo, bc in spans:
            body = t[bo:bc + 1]
            suffix = 'rev' if ('outlined_iter_rev(' in body or '.rev()' in body) else 'fwd'
            body2, k = re.subn(r'\bpeek_spans::<', 'peek_spans_%s::<' % suffix, body)
            if k:
                it.log.append(('R10', 'peek_spans -> peek_spans_%s  x%d' % (suffix, k)))
            out += t[last:bo] + body2
            last = bc + 1
        t = out + t[last:]
    it.text = t
    return it


def build(U, nodes=True):
    U.use('vstd::string::*')
    U.use('vstd::utf8::*')
    U.use('vstd::std_specs::convert::*')
    U.use('vstd::std_specs::iter::*')
    U.use('core::ops::Range')
    U.ghost(P.CORE, 'core vocabulary')
    U.ghost(P.input_trait_decl(P.INPUT_BASIC), 'trait Input (contracts only)')
    U.ghost(P.TRAITS, 'trait contracts')
    U.ghost(IDX_GHOST.split('// std: Option::map_or')[0], 'spec_norm / spec_constrain (C06, from unit idx)')
    U.ghost(GHOST.replace('@@OUTLINED@@', OUTLINED_STUB if nodes else OUTLINED_VERIFIED), 'denotations of the slice nodes, contracts-only pieces, Stack model continued')
    F = 'main/src/predefined_node/mod.rs'

    # ---- stack_slice -----------------------------------------------------------------------------------------
    f = U.fn(F, 'stack_slice').drop_attrs()
    stack_rewrites(f, calls=False)
    f.rw('R3', 'core::slice::Iter::default()', 'shim_empty_slice_iter()')
    f.ret('r')
    f.contract('''    requires stack_all_wf(stack@),
    ensures match spec_constrain(start as int, match end { Some(e) => Some(e as int), None => None }, stack@.cur.len() as int) {
            None => r is None,
            Some((a, b)) => r is Some && IteratorSpec::obeys_prophetic_iter_laws(&r->0) && IteratorSpec::decrease(&r->0) is Some
                && derefs(IteratorSpec::remaining(&r->0)) == (if b <= a { Seq::<Span<'i>>::empty() } else { stack@.cur.subrange(a as int, b as int) }),
        },''')
    f.body_start('    proof { axiom_stack_depth_fits_i32(stack); }')
    hints(f)
    U.emit(f)

    # ---- peek_spans, instantiated at the iterator types of its call sites (R10) ---------------------------------
    U.emit(hints(peek_spans(U, F, 'fwd', "core::slice::Iter<'s, Span<'i>>")))
    rv = peek_spans(U, F, 'rev', "core::iter::Rev<core::slice::Iter<'s, Span<'i>>>", stub=nodes)
    U.emit(rv if nodes else hints(rv), under_contract=not nodes)
    if not nodes:
        return

    # ---- PEEK_ALL ---------------------------------------------------------------------------------------------
    struct(U, 'PEEK_ALL')
    im = U.impl(F, "TypedNode<'i, R> for PEEK_ALL<'i>").drop_attrs()
    stack_rewrites(im)
    im.prepend_in_block(P.semdef("sem_peek_all(c, pos, st)", "n.span == (Span { input: c.input, start: pos as usize, end: end as usize })"))
    hints(im)
    U.emit(im)

    # ---- POP_ALL ----------------------------------------------------------------------------------------------
    struct(U, 'POP_ALL')
    U.ghost("impl<'i> FromSpecImpl<Span<'i>> for POP_ALL<'i> { open spec fn obeys_from_spec() -> bool { true } open spec fn from_spec(span: Span<'i>) -> Self { Self { span } } }", 'From spec')
    U.emit(U.impl(F, "From<Span<'i>> for POP_ALL<'i>").drop_attrs(), under_contract=False)
    im = U.impl(F, "TypedNode<'i, R> for POP_ALL<'i>").drop_attrs()
    im.rw('R1b', 'PEEK_ALL::try_parse_partial_with(', "<PEEK_ALL<'i> as TypedNode<'i, R>>::try_parse_partial_with(")
    im.rw('R1b', 'PEEK_ALL::try_check_partial_with(', "<PEEK_ALL<'i> as TypedNode<'i, R>>::try_check_partial_with(")
    im.prepend_in_block(P.semdef("sem_pop_all(c, pos, st)", "n.span == (Span { input: c.input, start: pos as usize, end: end as usize })"))
    for fn in ('try_parse_partial_with', 'try_check_partial_with'):
        im.attr('    #[verifier::loop_isolation(false)]', fname=fn)
        im.loop(1, fname=fn, inv='''            invariant stack@.snaps == old(stack)@.snaps, stack_all_wf(stack@),
            decreases stack@.cur.len(),''')
    hints(im)
    U.emit(im)

    # ---- PeekSlice2 / PeekSlice1 ---------------------------------------------------------------------------------
    for name, endexpr in (('PeekSlice2', 'Some(END as int)'), ('PeekSlice1', 'None')):
        struct(U, name, r'pub struct %s<' % name)
        im = U.impl(F, "for %s<START" % name).drop_attrs() if name == 'PeekSlice1' else U.impl(F, "for PeekSlice2<START, END>").drop_attrs()
        stack_rewrites(im)
        im.text, k = re.subn(r'\bstack_slice\(', 'stack_slice::<I, R>(', im.text)
        im.log.append(('R1b', 'stack_slice( -> stack_slice::<I, R>(  x%d' % k))
        im.prepend_in_block(P.semdef("sem_peek_slice(c, pos, st, START as int, %s)" % endexpr))
        hints(im)
        U.emit(im)
