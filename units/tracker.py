"""unit tracker — Tracker::{prepare, during, positive_during, negative_during, record, record_during_with,
record_during, empty_stack, out_of_bound, repeat_too_many_times} (tracker.rs).
C10: only attempts at the furthest position are kept and the reported position never moves backwards.
R1 soundness (DESIGN.md §3.1): during / record_during_with call `f` exactly once on the tracker and return its
result unchanged, so erasing them from the combinators does not change verdict, offset or stack."""
import re
import _prelude as P

GHOST = r'''
// the attempts map (BTreeMap<Option<R>, (Vec<R>, Vec<R>, Vec<SpecialError>)>) is opaque here: only whether it is
// empty matters for the furthest-position rule; rendering is outside Verus (bounded: nb_gen).
#[verifier::external_body]
#[verifier::reject_recursive_types(R)]
pub struct Attempts<R> { p: core::marker::PhantomData<R> }
// one entry of the map: (rules expected, rules unexpected, special errors) — the real tuple type of the source (`Tracked<R>`)
pub type Tracked3<R> = (Vec<R>, Vec<R>, Vec<SpecialError>);
pub struct EntryView<R> { pub expected: Seq<R>, pub unexpected: Seq<R>, pub special: Seq<SpecialError> }
pub open spec fn view3<R>(t: Tracked3<R>) -> EntryView<R> { EntryView { expected: t.0@, unexpected: t.1@, special: t.2@ } }
// the entry stored under a key (`entry(key).or_default()`: the empty entry when absent)
pub uninterp spec fn entry_view<R>(a: Attempts<R>, key: Option<R>) -> EntryView<R>;
// the key get_entry picks: the lowest enclosing rule frame that started at a different position (None if there is none)
pub uninterp spec fn entry_key<R>(stack: Seq<(R, usize, bool)>, pos: nat) -> Option<R>;
#[verifier::external_body]
pub broadcast proof fn axiom_empty_attempts<R>(a: Attempts<R>, key: Option<R>)
    requires attempts_empty(a),
    ensures #[trigger] entry_view(a, key) == (EntryView::<R> { expected: Seq::empty(), unexpected: Seq::empty(), special: Seq::empty() }),
{ }
// Eq on rule enums (derived): structural equality
#[verifier::external_body]
fn shim_rule_eq<R: RuleType>(a: R, b: R) -> (r: bool) ensures r == (a == b), { unimplemented!() }
pub uninterp spec fn attempts_empty<R>(a: Attempts<R>) -> bool;
impl<R> Attempts<R> {
    // BTreeMap::is_empty on the opaque map (so that code consulting it stays within the verified text)
    #[verifier::external_body]
    pub fn is_empty(&self) -> (r: bool) ensures r == attempts_empty(*self), { unimplemented!() }
}
pub enum SpecialError { SliceOutOfBound(i32, Option<i32>), RepeatTooManyTimes, EmptyStack }
// Ord::cmp on Position (position.rs:507-515): asserts equal inputs, then compares offsets
#[verifier::external_body]
fn shim_position_cmp<'i>(a: &Position<'i>, b: &Position<'i>) -> (r: core::cmp::Ordering)
    requires a.input == b.input,
    ensures (r is Less) == (a.pos < b.pos), (r is Equal) == (a.pos == b.pos), (r is Greater) == (a.pos > b.pos),
{ unimplemented!() }
#[verifier::external_body]
fn tracked3_push_special<R>(t: &mut Tracked3<R>, e: SpecialError)
    ensures final(t).0 == old(t).0, final(t).1 == old(t).1,
{ unimplemented!() }
'''


def build(U):
    U.use('vstd::string::*')
    U.use('vstd::utf8::*')
    U.use('core::marker::PhantomData')
    U.use('core::cmp::Ordering')
    F = 'main/src/tracker.rs'
    U.ghost(P.CORE, 'core vocabulary')
    U.ghost(P.input_trait_decl(['byte_offset', 'input', 'as_position']), 'trait Input (contracts only)')
    U.ghost(GHOST, 'opaque attempts map, shims')
    U.ghost('''pub trait RuleWrapper<R: RuleType> { const RULE: R; }''', 'RuleWrapper (wrapper.rs), const only')
    st = U.block_item(F, r'pub struct Tracker<', 'struct Tracker', std=False).drop_attrs()
    st.rw('R4', 'attempts: BTreeMap<Option<R>, Tracked<R>>', 'attempts: Attempts<R>')
    st.text = re.sub(r'(\n\s*)(position|positive|attempts|stack|phantom):', r'\1pub \2:', st.text)
    st.log.append(('R2', 'fields made pub (specs mention them)'))
    st.text = '#[verifier::reject_recursive_types(R)]\n' + st.text
    U.emit(st, under_contract=False)

    im = U.impl(F, "impl<'i, R: RuleType> Tracker<'i, R>", r1=False).drop_attrs()
    keep = ['prepare', 'during', 'positive_during', 'negative_during', 'repeat_too_many_times', 'out_of_bound',
            'empty_stack', 'same_with_last', 'record', 'record_during_with', 'record_during']
    im.keep_methods(keep)
    im.rw('R7', 'debug_assert_eq!(pos.input(), self.position.input());\n', '', count=2)
    im.rw('R3', 'pos.cmp(&self.position)', 'shim_position_cmp(&pos, &self.position)')
    im.rw('R3', '*last == rule', 'shim_rule_eq(*last, rule)')
    im.rw('R3', 'self.get_entry(pos).2.push(SpecialError::RepeatTooManyTimes);', 'tracked3_push_special(self.get_entry(pos), SpecialError::RepeatTooManyTimes);')
    im.rw('R3', '''self.get_entry(pos)
                .2
                .push(SpecialError::SliceOutOfBound(start, end));''', 'tracked3_push_special(self.get_entry(pos), SpecialError::SliceOutOfBound(start, end));')
    im.rw('R3', 'self.get_entry(pos).2.push(SpecialError::EmptyStack);', 'tracked3_push_special(self.get_entry(pos), SpecialError::EmptyStack);')
    FRAME = 'final(self).positive == old(self).positive, final(self).stack == old(self).stack, final(self).position.input == old(self).position.input'
    SAME = 'inv(pos), pos.ctx().input == old(self).position.input'
    im.ret('r', fname='prepare')
    im.contract('''        requires %s,
        // C10 furthest-position rule: the tracked position is the maximum seen; earlier attempts are dropped
        // exactly when a further position arrives; the result says whether `pos` is (now) the tracked position
        ensures final(self).position.pos == (if pos.off() > old(self).position.pos { pos.off() as usize } else { old(self).position.pos }),
                r == (pos.off() >= old(self).position.pos),
                pos.off() > old(self).position.pos ==> attempts_empty(final(self).attempts),
                pos.off() <= old(self).position.pos ==> final(self).attempts == old(self).attempts,
                %s,''' % (SAME, FRAME), fname='prepare')
    MONO = '''        requires %s,
        ensures final(self).position.pos >= old(self).position.pos, final(self).position.pos >= pos.off() || final(self).position.pos == old(self).position.pos,
                final(self).position.pos == old(self).position.pos || final(self).position.pos == pos.off(),
                %s,''' % (SAME, FRAME)
    for fn in ('repeat_too_many_times', 'out_of_bound', 'empty_stack'):
        im.contract(MONO, fname=fn)
    # clear / get_entry / record touch the BTreeMap and the per-entry vectors (no vstd model): contract-only stubs,
    # bodies not taken into the unit (R5); their observable effect (the rendered report) is bounded-checked by nb_gen.
    im.prepend_in_block('''    #[verifier::external_body]
    fn clear(&mut self)
        ensures attempts_empty(final(self).attempts), final(self).position == old(self).position, final(self).positive == old(self).positive, final(self).stack == old(self).stack,
    { unimplemented!() }
    #[verifier::external_body]
    fn get_entry<'s>(&'s mut self, pos: impl Input<'i>) -> (r: &'s mut Tracked3<R>)
        ensures final(self).position == old(self).position, final(self).positive == old(self).positive, final(self).stack == old(self).stack,
                // the entry under the key chosen from the rule-frame stack; the caller's writes go to that entry
                view3(*r) == entry_view(old(self).attempts, entry_key(old(self).stack@, pos.off())),
                entry_view(final(self).attempts, entry_key(old(self).stack@, pos.off())) == view3(*final(r)),
                !attempts_empty(final(self).attempts) || view3(*final(r)) == (EntryView::<R> { expected: Seq::empty(), unexpected: Seq::empty(), special: Seq::empty() }),
    { unimplemented!() }''')
    im.ret('r', fname='same_with_last')
    im.contract('        ensures r == (vec@.len() > 0 && vec@.last() == rule),', fname='same_with_last')
    # C10 polarity: a rule is recorded exactly when its outcome contradicts the current polarity and the position is (now) the
    # furthest one; a failure under positive polarity goes to the EXPECTED list, a success under negative polarity to the
    # UNEXPECTED list, of the entry keyed by the enclosing rule frame; the other list of that entry is untouched
    im.contract(MONO.rstrip() + '''
                ({
                    let key = entry_key(old(self).stack@, pos.off());
                    let before = if pos.off() > old(self).position.pos { EntryView::<R> { expected: Seq::empty(), unexpected: Seq::empty(), special: Seq::empty() } } else { entry_view(old(self).attempts, key) };
                    let after = entry_view(final(self).attempts, key);
                    if pos.off() >= old(self).position.pos && succeeded != old(self).positive {
                        if old(self).positive { after.expected.len() > 0 && after.expected.last() == rule && after.unexpected == before.unexpected
                                                && (after.expected == before.expected || after.expected == before.expected.push(rule)) }
                        else { after.unexpected.len() > 0 && after.unexpected.last() == rule && after.expected == before.expected
                               && (after.unexpected == before.unexpected || after.unexpected == before.unexpected.push(rule)) }
                    } else {
                        final(self).attempts == old(self).attempts || (pos.off() > old(self).position.pos && attempts_empty(final(self).attempts))
                    }
                }),''', fname='record')
    im.body_start('        broadcast use axiom_empty_attempts;', fname='record')
    im.rw_noop = None
    # during<Ret, POSITIVE>: f called exactly once on self, result returned, polarity restored
    im.ret('res', fname='during')
    im.contract('''        requires forall|t: &mut Self| (*t).position == old(self).position && (*t).stack == old(self).stack && (*t).attempts == old(self).attempts ==> #[trigger] f.requires((t,)),
                 forall|t: &mut Self, r: Ret| #[trigger] f.ensures((t,), r) ==> final(t).positive == (*t).positive,
        ensures final(self).positive == old(self).positive,
                exists|t0: &mut Self| (*t0).position == old(self).position && (*t0).stack == old(self).stack && (*t0).attempts == old(self).attempts && (*t0).positive == POSTIVE
                    && #[trigger] f.ensures((t0,), res) && final(self).position == final(t0).position && final(self).stack == final(t0).stack && final(self).attempts == final(t0).attempts,''', fname='during')
    for fn in ('positive_during', 'negative_during'):
        im.ret('res', fname=fn)
        im.contract('''        requires forall|t: &mut Self| (*t).position == old(self).position && (*t).stack == old(self).stack && (*t).attempts == old(self).attempts ==> #[trigger] f.requires((t,)),
                 forall|t: &mut Self, r: Ret| #[trigger] f.ensures((t,), r) ==> final(t).positive == (*t).positive,
        ensures final(self).positive == old(self).positive,
                exists|t0: &mut Self| (*t0).position == old(self).position && (*t0).stack == old(self).stack && (*t0).attempts == old(self).attempts
                    && #[trigger] f.ensures((t0,), res) && final(self).position == final(t0).position && final(self).stack == final(t0).stack && final(self).attempts == final(t0).attempts,''', fname=fn)
    RDW = '''        requires inv(pos), pos.ctx().input == old(self).position.input,
                 forall|t: &mut Self| (*t).position.input == old(self).position.input && (*t).positive == old(self).positive ==> #[trigger] f.requires((t,)),
                 // what every nested use of the tracker preserves (each combinator's closure does)
                 forall|t: &mut Self, r: Option<%(ret)s>| #[trigger] f.ensures((t,), r) ==> final(t).stack@.len() == (*t).stack@.len()
                     && final(t).position.input == (*t).position.input && final(t).position.pos >= (*t).position.pos && final(t).positive == (*t).positive,
        ensures
                 // R1 soundness: f runs exactly once on this tracker and its result is returned unchanged
                 exists|t0: &mut Self| (*t0).position == old(self).position && (*t0).positive == old(self).positive && #[trigger] f.ensures((t0,), res),
                 // the rule-frame stack is balanced, polarity kept, the reported position never moves backwards (C10)
                 final(self).stack@.len() == old(self).stack@.len(), final(self).positive == old(self).positive,
                 final(self).position.input == old(self).position.input, final(self).position.pos >= old(self).position.pos,'''
    im.ret('res', fname='record_during_with')
    im.contract(RDW % {'ret': 'Ret'}, fname='record_during_with')
    im.ret('res', fname='record_during')
    im.contract(RDW % {'ret': '(I, T)'}, fname='record_during')
    U.emit(im)
