"""unit seqchk — check path of Seq2..Seq12 (sequence.rs `seq!`, from rustc's macro expansion).
C07 (implicit skip SKIP times before every element but the first, none before the first / after the last),
C01/C03 (sequence = PEG concatenation with skips).  The parse path (core::array::from_fn with an FnMut closure) is unit seqpar (rewrite R9)."""
import _prelude as P

VERUS_FLAGS = ['--no-lifetime']
VERUS_FLAGS_WHY = 'the unit takes only the check-path methods of trait impls (parse paths are outside Verus), so the erased crate is not a complete Rust program; proofs are unaffected, no tracked/linear ghost state is used'

SKIPK = r'''
// k applications of the never-failing skip node
pub open spec fn skip_k<'i, R: RuleType, Skip: NeverFailedTypedNode<'i, R>>(c: Ctx<'i>, k: nat, pos: nat, st: Seq<Span<'i>>) -> (nat, Seq<Span<'i>>)
    decreases k
{
    if k == 0 { (pos, st) } else {
        let (p, s) = Skip::sem_nf(c, pos, st);
        skip_k::<R, Skip>(c, (k - 1) as nat, p, s)
    }
}
'''


def sem_seq(n):
    ts = ', '.join("T%d: TypedNode<'i, R>" % k for k in range(n))
    body = 'Some(r%d)' % (n - 1)
    for k in reversed(range(n)):
        if k == 0:
            body = 'match T0::sem(c, pos, st) { None => None, Some(r0) => { %s } }' % body
        else:
            body = ('let (q%d, t%d) = skip_k::<R, Skip>(c, skip, r%d.0, r%d.1); match T%d::sem(c, q%d, t%d) { None => None, Some(r%d) => { %s } }'
                    % (k, k, k - 1, k - 1, k, k, k, k, body))
    return ("pub open spec fn sem_seq%d<'i, R: RuleType, %s, Skip: NeverFailedTypedNode<'i, R>>(c: Ctx<'i>, skip: nat, pos: nat, st: Seq<Span<'i>>) -> Res<'i> {\n    %s\n}\n"
            % (n, ts, body))


def build(U, arities=range(2, 13)):
    U.use('vstd::string::*')
    U.use('vstd::utf8::*')
    U.ghost(P.CORE, 'core vocabulary')
    U.ghost(P.input_trait_decl(P.INPUT_BASIC), 'trait Input (contracts only)')
    U.ghost(P.TRAITS, 'trait contracts')
    U.ghost(SKIPK, 'skip_k')
    sk = U.block_item('main/src/predefined_node/mod.rs', r'pub struct Skipped\b', 'struct Skipped').drop_attrs()
    import re
    sk.text = re.sub(r'[ \t]*#\[derive\([^\]]*\)\]\n?', '', sk.text)
    sk.log.append(('R5', 'derive attribute dropped'))
    U.emit(sk, under_contract=False)
    for n in arities:
        U.ghost(sem_seq(n), 'sem of %d-ary sequence' % n)
        st = U.block_item('expanded', r'pub struct Seq%d<' % n, 'struct Seq%d' % n).drop_attrs()
        U.emit(st, under_contract=False)
        tl = ', '.join('Skipped<T%d, Skip, SKIP>' % k for k in range(n))
        im = U.impl('expanded', "TypedNode<'i, R> for Seq%d<" % n).drop_attrs()
        im.keep_methods(['try_check_partial_with'])
        tn = ', '.join('T%d' % k for k in range(n))
        im.prepend_in_block(P.semdef("sem_seq%d::<R, %s, Skip>(c, SKIP as nat, pos, st)" % (n, tn)))
        im.attr('    #[verifier::loop_isolation(false)]', fname='try_check_partial_with')
        im.body_start("        let ghost input0 = input;", fname='try_check_partial_with')
        for j in range(1, n):
            im.before_loop(j, "        let ghost p%d = input.off(); let ghost s%d = stack@.cur;" % (j, j))
            im.loop(j, it='it', inv="""                    invariant
                        inv(input), input.ctx() == input0.ctx(), input.off() >= input0.off(),
                        stack@.snaps == old(stack)@.snaps, stack_all_wf(stack@),
                        skip_k::<R, Skip>(input0.ctx(), (SKIP - it.index@) as nat, input.off(), stack@.cur)
                            == skip_k::<R, Skip>(input0.ctx(), SKIP as nat, p%d, s%d),""" % (j, j))
            im.loop_body_start(j, """                        proof {
                            let k = (SKIP - it.index@) as nat;
                            assert(k > 0);
                            assert(skip_k::<R, Skip>(input0.ctx(), k, input.off(), stack@.cur) == ({
                                let (p, s) = Skip::sem_nf(input0.ctx(), input.off(), stack@.cur);
                                skip_k::<R, Skip>(input0.ctx(), (k - 1) as nat, p, s) }));
                        }""")
        P.hints(im)
        U.emit(im)
