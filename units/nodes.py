"""unit nodes — predicates, PUSH, PEEK, POP, DROP, SOI, EOI, Empty, AlwaysFail (predefined_node/mod.rs).
C05 (predicates always restore), C06 (PUSH/PEEK/POP/DROP semantics, graceful failure on empty stack),
C01/C03 (each node meets the PEG denotation on both paths)."""
import _prelude as P

SEM = r'''
// ---- denotations, from the statements of C01/C05/C06 --------------------------------------------------
pub open spec fn sem_positive<'i, R: RuleType, N: TypedNode<'i, R>>(c: Ctx<'i>, pos: nat, st: Seq<Span<'i>>) -> Res<'i> {
    match N::sem(c, pos, st) { Some(_) => Some((pos, st)), None => None }
}
pub open spec fn sem_negative<'i, R: RuleType, N: TypedNode<'i, R>>(c: Ctx<'i>, pos: nat, st: Seq<Span<'i>>) -> Res<'i> {
    match N::sem(c, pos, st) { Some(_) => None, None => Some((pos, st)) }
}
// PUSH(e): pushes exactly the text e matched: the span from where e started to where it stopped
pub open spec fn sem_push<'i, R: RuleType, T: TypedNode<'i, R>>(c: Ctx<'i>, pos: nat, st: Seq<Span<'i>>) -> Res<'i> {
    match T::sem(c, pos, st) {
        Some((p, s)) => Some((p, s.push(Span { input: c.input, start: pos as usize, end: p as usize }))),
        None => None,
    }
}
pub open spec fn sem_peek<'i>(c: Ctx<'i>, pos: nat, st: Seq<Span<'i>>) -> Res<'i> {
    if st.len() == 0 { None }
    else if is_prefix(st.last().text(), rest(c, pos)) { Some((pos + st.last().text().len(), st)) }
    else { None }
}
pub open spec fn sem_pop<'i>(c: Ctx<'i>, pos: nat, st: Seq<Span<'i>>) -> Res<'i> {
    if st.len() == 0 { None }
    else if is_prefix(st.last().text(), rest(c, pos)) { Some((pos + st.last().text().len(), st.drop_last())) }
    else { None }
}
pub open spec fn sem_drop<'i>(c: Ctx<'i>, pos: nat, st: Seq<Span<'i>>) -> Res<'i> {
    if st.len() == 0 { None } else { Some((pos, st.drop_last())) }
}
pub open spec fn sem_soi<'i>(c: Ctx<'i>, pos: nat, st: Seq<Span<'i>>) -> Res<'i> { if pos == c.start { Some((pos, st)) } else { None } }
pub open spec fn sem_eoi<'i>(c: Ctx<'i>, pos: nat, st: Seq<Span<'i>>) -> Res<'i> { if pos == c.end { Some((pos, st)) } else { None } }

// Span::as_str (span.rs:232) — contract only here; the body is verified in unit `spanpos`.
impl<'i> Span<'i> {
    #[verifier::external_body]
    pub fn as_str(&self) -> (r: &'i str)
        requires self.wf(),
        ensures r.spec_bytes() == self.text(),
    { unimplemented!() }
}
'''

SNAP_PROOF = '''            proof {
                assert(stack@.snaps.drop_last() == old(stack)@.snaps);
                assert(stack@.snaps.last() == old(stack)@.cur);
                assert(stack_all_wf(stack@)) by {
                    assert forall|k: int| 0 <= k < stack@.snaps.len() implies stack_wf(#[trigger] stack@.snaps[k]) by {
                        if k < old(stack)@.snaps.len() { assert(stack@.snaps[k] == old(stack)@.snaps[k]); }
                    }
                }
            }'''
RESTORE_PROOF = '''                    proof {
                        assert(stack@.snaps.drop_last() == old(stack)@.snaps);
                        assert(stack@.snaps.last() == old(stack)@.cur);
                        assert(stack_wf(stack@.snaps.last()));
                    }'''


def struct(U, name, pat=None):
    it = U.block_item('main/src/predefined_node/mod.rs', pat or (r'pub struct %s\b' % name), 'struct ' + name).drop_attrs()
    # derives / custom_debug attributes are external (R5)
    import re
    t = re.sub(r'[ \t]*#\[(derive|debug)\([^\]]*\)\]\n?', '', it.text)
    if t != it.text:
        it.log.append(('R5', 'derive/debug attributes dropped'))
        it.text = t
    U.emit(it, under_contract=False)
    return it


def build(U):
    U.use('vstd::string::*')
    U.use('vstd::utf8::*')
    U.use('core::marker::PhantomData')
    U.use('vstd::std_specs::convert::*')
    U.ghost(P.CORE, 'core vocabulary')
    U.ghost(P.input_trait_decl(P.INPUT_BASIC, position_impl=True), 'trait Input (contracts only) + impl for Position (contracts only)')
    U.ghost(P.TRAITS, 'trait contracts')
    U.ghost(SEM, 'denotations of predicates and stack nodes')
    F = 'main/src/predefined_node/mod.rs'

    # ---- Positive / Negative -------------------------------------------------------------------
    struct(U, 'Positive')
    U.ghost("impl<N> FromSpecImpl<N> for Positive<N> { open spec fn obeys_from_spec() -> bool { true } open spec fn from_spec(content: N) -> Self { Self { content } } }", 'From spec')
    U.emit(U.impl(F, 'From<N> for Positive<N>').drop_attrs(), under_contract=False)
    im = U.impl(F, "TypedNode<'i, R> for Positive<N>").drop_attrs()
    im.prepend_in_block(P.semdef("sem_positive::<R, N>(c, pos, st)", "match N::sem(c, pos, st) { Some((p, _)) => N::node_ok(c, pos, st, p, n.content), None => false }"))
    P.hints(im)
    U.emit(im)

    struct(U, 'Negative')
    U.ghost("impl<T> FromSpecImpl<()> for Negative<T> { open spec fn obeys_from_spec() -> bool { false } open spec fn from_spec(_value: ()) -> Self { arbitrary() } }", 'From spec')
    U.emit(U.impl(F, 'From<()> for Negative<T>').drop_attrs(), under_contract=False)
    im = U.impl(F, "TypedNode<'i, R> for Negative<T>").drop_attrs()
    im.prepend_in_block(P.semdef("sem_negative::<R, T>(c, pos, st)"))
    P.hints(im)
    U.emit(im)

    # ---- Push ----------------------------------------------------------------------------------------
    struct(U, 'Push')
    U.ghost("impl<T> FromSpecImpl<T> for Push<T> { open spec fn obeys_from_spec() -> bool { true } open spec fn from_spec(content: T) -> Self { Self { content } } }", 'From spec')
    U.emit(U.impl(F, 'From<T> for Push<T>').drop_attrs(), under_contract=False)
    im = U.impl(F, "TypedNode<'i, R> for Push<T>").drop_attrs()
    im.prepend_in_block(P.semdef("sem_push::<R, T>(c, pos, st)", "T::node_ok(c, pos, st, end, n.content)"))
    P.hints(im)
    U.emit(im)

    # ---- DROP / POP / PEEK -----------------------------------------------------------------------------
    struct(U, 'DROP')
    im = U.impl(F, "TypedNode<'i, R> for DROP").drop_attrs()
    im.prepend_in_block(P.semdef("sem_drop(c, pos, st)"))
    P.hints(im)
    U.emit(im)

    struct(U, 'POP')
    U.ghost("impl<'i> FromSpecImpl<Span<'i>> for POP<'i> { open spec fn obeys_from_spec() -> bool { true } open spec fn from_spec(span: Span<'i>) -> Self { Self { span } } }", 'From spec')
    U.emit(U.impl(F, "From<Span<'i>> for POP<'i>").drop_attrs(), under_contract=False)
    im = U.impl(F, "TypedNode<'i, R> for POP<'i>").drop_attrs()
    im.prepend_in_block(P.semdef("sem_pop(c, pos, st)", "st.len() > 0 && n.span == st.last()"))
    P.hints(im)
    U.emit(im)

    struct(U, 'PEEK')
    U.ghost("impl<'i> FromSpecImpl<Span<'i>> for PEEK<'i> { open spec fn obeys_from_spec() -> bool { true } open spec fn from_spec(span: Span<'i>) -> Self { Self { span } } }", 'From spec')
    U.emit(U.impl(F, "From<Span<'i>> for PEEK<'i>").drop_attrs(), under_contract=False)
    im = U.impl(F, "TypedNode<'i, R> for PEEK<'i>").drop_attrs()
    im.prepend_in_block(P.semdef("sem_peek(c, pos, st)", "n.span == (Span { input: c.input, start: pos as usize, end: end as usize })"))
    P.hints(im)
    U.emit(im)

    # ---- SOI / EOI ---------------------------------------------------------------------------------------
    struct(U, 'SOI')
    im = U.impl(F, "TypedNode<'i, R> for SOI").drop_attrs()
    im.prepend_in_block(P.semdef("sem_soi(c, pos, st)"))
    P.hints(im)
    U.emit(im)
    struct(U, 'EOI')
    im = U.impl(F, "TypedNode<'i, R> for EOI").drop_attrs()
    im.prepend_in_block(P.semdef("sem_eoi(c, pos, st)"))
    P.hints(im)
    U.emit(im)
