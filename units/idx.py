"""unit idx — parser_state.rs: normalize_index, constrain_idxs (C06 index arithmetic)."""

GHOST = r'''
// Specification, taken from the statement of C06 (not from the code): a non-negative index counts
// from the bottom, a negative one from the top, anything outside 0..=len is out of range.
pub open spec fn spec_norm(i: int, len: int) -> Option<usize> {
    if i > len { None }
    else if i >= 0 { Some(i as usize) }
    else if len + i >= 0 { Some((len + i) as usize) }
    else { None }
}
pub open spec fn spec_constrain(start: int, end: Option<int>, len: int) -> Option<(usize, usize)> {
    match spec_norm(start, len) {
        None => None,
        Some(a) => match end {
            None => Some((a, len as usize)),
            Some(e) => match spec_norm(e, len) { None => None, Some(b) => Some((a, b)) },
        },
    }
}
// std: Option::map_or (R3: given a specification, body is std's)
pub assume_specification<T, U, F: FnOnce(T) -> U>[ Option::<T>::map_or::<U, F> ](this: Option<T>, default: U, f: F) -> (r: U)
    requires this is Some ==> f.requires((this->0,)),
    ensures this is None ==> r == default, this is Some ==> f.ensures((this->0,), r);
'''


def build(U):
    U.use('core::ops::Range')
    U.ghost(GHOST, 'spec_norm / spec_constrain / Option::map_or spec')
    f = U.fn('main/src/parser_state.rs', 'normalize_index').drop_attrs()
    f.ret('r').contract('''    requires len <= i32::MAX,
    ensures r == spec_norm(i as int, len as int),
            r is Some ==> r->0 <= len,''')
    U.emit(f)
    g = U.fn('main/src/parser_state.rs', 'constrain_idxs').drop_attrs()
    g.rw('R2', 'pub(crate) fn', 'fn')
    g.ret('r').contract('''    requires len <= i32::MAX,
    ensures
        match spec_constrain(start as int, match end { Some(e) => Some(e as int), None => None }, len as int) {
            Some((a, b)) => r is Some && r->0.start == a && r->0.end == b && a <= len && b <= len,
            None => r is None,
        },''')
    g.closure(1, params='e: i32', contract='-> (o: Option<usize>) requires len <= i32::MAX, ensures o == spec_norm(e as int, len as int)')
    U.emit(g)
