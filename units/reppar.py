"""unit reppar — repetition, parse paths (predefined_node/repetition.rs): try_parse_unit, RepeatMin, RepeatMinMax,
AtomicRepeat (TypedNode::try_parse_partial_with and NeverFailedTypedNode::parse_with).
Same postcondition over the same `sem_repmin` / `sem_repminmax` as the check paths (unit repchk): C01/C03, C05 (a failed
iteration leaves no trace), C07 (skip only between iterations), C19 (bounds, greedy; `node_ok`: the node holds exactly
as many units as matched, MIN <= count (<= MAX)), C17 (`node_ok`: the k-th unit holds the node its body built where
unit k matched).  `core::array::from_fn(|_| ..)` is rewritten to the loop it stands for (R9).  Termination of the
unbounded loop is not claimed (partial correctness)."""
import re
import _prelude as P
from seqchk import SKIPK
from seqpar import SHIM
from repchk import SEM, ATOMIC

VERUS_FLAGS = ['--no-lifetime']
VERUS_FLAGS_WHY = 'the unit takes only the parse-path methods of trait impls (check paths are unit repchk), so the erased crate is not a complete Rust program; proofs are unaffected, no tracked/linear ghost state is used'

NODE = r'''
// what unit k of a repetition node holds: the node the body built at the place where unit k matched
pub open spec fn unit_ok<'i, R: RuleType, T: TypedNode<'i, R>, Skip: NeverFailedTypedNode<'i, R>>(c: Ctx<'i>, skip: nat, pos: nat, st: Seq<Span<'i>>, k: nat, m: T) -> bool {
    match rep_state::<R, T, Skip>(c, skip, k, pos, st) {
        None => false,
        Some((p, s)) => {
            let (q, t) = if k > 0 { skip_k::<R, Skip>(c, skip, p, s) } else { (p, s) };
            T::sem(c, q, t) is Some && T::node_ok(c, q, t, (T::sem(c, q, t)->0).0, m)
        }
    }
}
pub open spec fn units_ok<'i, R: RuleType, T: TypedNode<'i, R>, Skip: NeverFailedTypedNode<'i, R>, const SKIP: usize>(c: Ctx<'i>, skip: nat, pos: nat, st: Seq<Span<'i>>, content: Seq<Skipped<T, Skip, SKIP>>) -> bool {
    forall|k: int| 0 <= k < content.len() ==> unit_ok::<R, T, Skip>(c, skip, pos, st, k as nat, (#[trigger] content[k]).matched)
}
// C19 / C17: the node holds exactly the units that matched, each built where it matched; the count is the number of
// leading matching units the result state corresponds to
pub open spec fn rep_node_ok<'i, R: RuleType, T: TypedNode<'i, R>, Skip: NeverFailedTypedNode<'i, R>, const SKIP: usize>(c: Ctx<'i>, skip: nat, pos: nat, st: Seq<Span<'i>>, end: nat, content: Seq<Skipped<T, Skip, SKIP>>) -> bool {
    units_ok::<R, T, Skip, SKIP>(c, skip, pos, st, content)
    && rep_state::<R, T, Skip>(c, skip, content.len(), pos, st) is Some
    && (rep_state::<R, T, Skip>(c, skip, content.len(), pos, st)->0).0 == end
}
pub open spec fn atomic_units_ok<'i, R: RuleType, T: TypedNode<'i, R>>(c: Ctx<'i>, pos: nat, st: Seq<Span<'i>>, content: Seq<T>) -> bool {
    forall|k: int| 0 <= k < content.len() ==> unit_ok::<R, T, NoSkip>(c, 0, pos, st, k as nat, #[trigger] content[k])
}
'''

UNIT_CL = '''-> (r: Option<(I, Skipped<T, Skip, SKIP>)>)
                requires inv(input), stack_all_wf(old(stack)@),
                ensures match unit_sem::<R, T, Skip>(input.ctx(), SKIP as nat, i as nat, input.off(), old(stack)@.cur) {
                    Some((p, s)) => r is Some && post_some(input, old(stack)@, (r->0).0, final(stack)@, p, s)
                        && ({ let (q, t) = if i > 0 { skip_k::<R, Skip>(input.ctx(), SKIP as nat, input.off(), old(stack)@.cur) } else { (input.off() as nat, old(stack)@.cur) };
                              T::node_ok(input.ctx(), q, t, p, (r->0).1.matched) }),
                    None => r is None && post_none(old(stack)@, final(stack)@),
                }'''

STEP = '''            proof {
                assert(rep_state::<R, T, Skip>(input0.ctx(), SKIP as nat, (i + 1) as nat, input0.off(), old(stack)@.cur)
                    == unit_sem::<R, T, Skip>(input0.ctx(), SKIP as nat, i as nat, input.off(), stack@.cur));
                %(stop)s
            }'''
STOP_MINMAX = '''if i < MAX && unit_sem::<R, T, Skip>(input0.ctx(), SKIP as nat, i as nat, input.off(), stack@.cur) is None {
                    lemma_repminmax_at::<R, T, Skip>(input0.ctx(), SKIP as nat, %(min)s, MAX as nat, i as nat, input0.off(), old(stack)@.cur);
                }'''
STOP_MIN = '''if unit_sem::<R, T, Skip>(input0.ctx(), SKIP as nat, i as nat, input.off(), stack@.cur) is None {
                    lemma_repmin_at::<R, T, Skip>(input0.ctx(), SKIP as nat, %(min)s, i as nat, input0.off(), old(stack)@.cur);
                }'''
# after a successful unit: the vector grew by the unit just built
PUSHED = '''                    proof {
                        assert forall|k: int| 0 <= k < vec@.len() implies unit_ok::<R, T, Skip>(input0.ctx(), SKIP as nat, input0.off(), old(stack)@.cur, k as nat, (#[trigger] vec@[k]).matched) by {
                            if k < vec@.len() - 1 { assert(vec@[k] == vf_vec0[k]); }
                        }
                    }'''

BOUNDED_INV = '''            invariant_except_break
                rep_state::<R, T, Skip>(input0.ctx(), SKIP as nat, it.index@ as nat, input0.off(), old(stack)@.cur)
                    == Some((input.off(), stack@.cur)),
                vec@.len() == it.index@,
            invariant
                inv(input), input.ctx() == input0.ctx(), input.off() >= input0.off(),
                stack@.snaps == old(stack)@.snaps, stack_all_wf(stack@),
                units_ok::<R, T, Skip, SKIP>(input0.ctx(), SKIP as nat, input0.off(), old(stack)@.cur, vec@),
                vec@.len() <= MAX,
            ensures
                sem_repminmax::<R, T, Skip>(input0.ctx(), SKIP as nat, %(min)s, MAX as nat, input0.off(), old(stack)@.cur)
                    == Some((input.off(), stack@.cur)),
                rep_state::<R, T, Skip>(input0.ctx(), SKIP as nat, vec@.len(), input0.off(), old(stack)@.cur)
                    == Some((input.off(), stack@.cur)),
                %(min)s <= MAX ==> %(min)s <= vec@.len(),'''
UNB_INV = '''            invariant_except_break
                !vf_done,
                rep_state::<R, T, Skip>(input0.ctx(), SKIP as nat, it.index@ as nat, input0.off(), old(stack)@.cur)
                    == Some((input.off(), stack@.cur)),
                vec@.len() == it.index@,
            invariant
                inv(input), input.ctx() == input0.ctx(), input.off() >= input0.off(),
                stack@.snaps == old(stack)@.snaps, stack_all_wf(stack@),
                units_ok::<R, T, Skip, SKIP>(input0.ctx(), SKIP as nat, input0.off(), old(stack)@.cur, vec@),
            ensures
                vf_done ==> %(sem)s == Some((input.off(), stack@.cur)),
                vf_done ==> rep_state::<R, T, Skip>(input0.ctx(), SKIP as nat, vec@.len(), input0.off(), old(stack)@.cur)
                    == Some((input.off(), stack@.cur)),
                vf_done ==> %(min)s <= vec@.len(),'''

NODE_OK = "rep_node_ok::<R, T, Skip, SKIP>(c, SKIP as nat, pos, st, end, n.content@) && %s"


def struct(U, name):
    it = U.block_item('main/src/predefined_node/repetition.rs', r'pub struct %s\b' % name, 'struct ' + name).drop_attrs()
    it.text = re.sub(r'[ \t]*#\[derive\([^\]]*\)\]\n?', '', it.text)
    it.log.append(('R5', 'derive attribute dropped'))
    U.emit(it, under_contract=False)


DEFAULT_WHY = ('R2', "header: `Skip: NeverFailedTypedNode<'i, R>` -> `.. + Default` (Default is a supertrait of NeverFailedTypedNode in the source; the contracts-only trait declaration has no supertraits)")


def with_default(it):
    it.header_rw("Skip: NeverFailedTypedNode<'i, R>,", "Skip: NeverFailedTypedNode<'i, R> + Default,")
    return it


def rep_loop(im, fname, inv, step, after_push=True):
    im.attr('    #[verifier::loop_isolation(false)]', fname=fname)
    im.body_start('        let ghost input0 = input;', fname=fname)
    im.loop(1, it='it', inv=inv, fname=fname)
    im.closure(1, params=P.STACK_PARAM, contract=UNIT_CL, fname=fname)
    im.loop_body_start(1, step + '\n            let ghost vf_vec0 = vec@;', fname=fname)
    im.after('vec.push(matched);', PUSHED)


def build(U):
    U.use('vstd::string::*')
    U.use('vstd::utf8::*')
    F = 'main/src/predefined_node/repetition.rs'
    U.ghost(P.CORE, 'core vocabulary')
    U.ghost(P.input_trait_decl(P.INPUT_BASIC), 'trait Input (contracts only)')
    U.ghost(P.TRAITS, 'trait contracts')
    P.emit_restore_on_none(U)
    U.ghost(SKIPK, 'skip_k')
    U.ghost(SHIM, 'R9 shim')
    U.ghost(SEM, 'repetition semantics')
    sk = U.block_item('main/src/predefined_node/mod.rs', r'pub struct Skipped\b', 'struct Skipped').drop_attrs()
    sk.text = re.sub(r'[ \t]*#\[derive\([^\]]*\)\]\n?', '', sk.text)
    sk.log.append(('R5', 'derive attribute dropped'))
    U.emit(sk, under_contract=False)
    U.ghost(ATOMIC, 'AtomicRepeat = repetition of T with no skip')
    U.ghost(NODE, 'what a repetition node holds')

    # ---- try_parse_unit -------------------------------------------------------------------------
    f = with_default(U.fn(F, 'try_parse_unit').drop_attrs())
    f.rw_from_fn('SKIP', 'Skip', expect=1)
    f.ret('r')
    f.contract('''    requires inv(input), stack_all_wf(old(stack)@),
    ensures match unit_sem::<R, T, Skip>(input.ctx(), SKIP as nat, i as nat, input.off(), old(stack)@.cur) {
            Some((p, s)) => r is Some && post_some(input, old(stack)@, (r->0).0, final(stack)@, p, s)
                && ({ let (q, t) = if i > 0 { skip_k::<R, Skip>(input.ctx(), SKIP as nat, input.off(), old(stack)@.cur) } else { (input.off() as nat, old(stack)@.cur) };
                      T::node_ok(input.ctx(), q, t, p, (r->0).1.matched) }),
            None => r is None && post_none(old(stack)@, final(stack)@),
        },''')
    f.attr('#[verifier::loop_isolation(false)]')
    f.body_start('    let ghost input0 = input;')
    f.loop(1, it='it', inv='''        invariant
            vf_arr.len() == it.index@,
            inv(input), input.ctx() == input0.ctx(), input.off() >= input0.off(),
            stack@.snaps == old(stack)@.snaps, stack_all_wf(stack@),
            i > 0 ==> skip_k::<R, Skip>(input0.ctx(), (SKIP - it.index@) as nat, input.off(), stack@.cur)
                        == skip_k::<R, Skip>(input0.ctx(), SKIP as nat, input0.off(), old(stack)@.cur),
            i == 0 ==> input.off() == input0.off() && stack@.cur == old(stack)@.cur,''')
    f.loop_body_start(1, '''            proof {
                let k = (SKIP - it.index@) as nat;
                assert(k > 0);
                assert(skip_k::<R, Skip>(input0.ctx(), k, input.off(), stack@.cur) == ({
                    let (p, s) = Skip::sem_nf(input0.ctx(), input.off(), stack@.cur);
                    skip_k::<R, Skip>(input0.ctx(), (k - 1) as nat, p, s) }));
            }''')
    P.hints(f)
    U.emit(f)

    # ---- RepeatMinMax: TypedNode parse path -----------------------------------------------------------
    struct(U, 'RepeatMinMax')
    im = with_default(U.impl(F, "TypedNode<'i, R> for RepeatMinMax<Skipped<T, Skip, SKIP>, MIN, MAX>").drop_attrs())
    im.keep_methods(['try_parse_partial_with'])
    im.prepend_in_block(P.semdef("sem_repminmax::<R, T, Skip>(c, SKIP as nat, MIN as nat, MAX as nat, pos, st)",
                                 NODE_OK % "n.content@.len() <= MAX && (MIN <= MAX ==> MIN <= n.content@.len())"))
    rep_loop(im, 'try_parse_partial_with', BOUNDED_INV % {'min': 'MIN as nat'}, STEP % {'stop': STOP_MINMAX % {'min': 'MIN as nat'}})
    P.hints(im)
    U.emit(im)

    # ---- RepeatMin: TypedNode parse path (unbounded loop, R6) -------------------------------------------
    struct(U, 'RepeatMin')
    im = with_default(U.impl(F, "TypedNode<'i, R> for RepeatMin<Skipped<T, Skip, SKIP>, MIN>").drop_attrs())
    im.keep_methods(['try_parse_partial_with'])
    im.prepend_in_block(P.semdef("sem_repmin::<R, T, Skip>(c, SKIP as nat, MIN as nat, pos, st)", NODE_OK % "MIN <= n.content@.len()"))
    im.attr('    #[verifier::exec_allows_no_decreases_clause]')
    rep_loop(im, 'try_parse_partial_with',
             UNB_INV % {'sem': 'sem_repmin::<R, T, Skip>(input0.ctx(), SKIP as nat, MIN as nat, input0.off(), old(stack)@.cur)', 'min': 'MIN as nat'},
             STEP % {'stop': STOP_MIN % {'min': 'MIN as nat'}})
    P.hints(im)
    U.emit(im)

    # ---- NeverFailedTypedNode::parse_with for RepeatMin<.., 0> and RepeatMinMax<.., 0, MAX> ---------------
    im = with_default(U.impl(F, "NeverFailedTypedNode<'i, R> for RepeatMin<Skipped<T, Skip, SKIP>, 0>").drop_attrs())
    im.keep_methods(['parse_with'])
    im.prepend_in_block("    open spec fn sem_nf(c: Ctx<'i>, pos: nat, st: Seq<Span<'i>>) -> (nat, Seq<Span<'i>>) { sem_repmin::<R, T, Skip>(c, SKIP as nat, 0, pos, st).unwrap() }")
    im.attr('    #[verifier::exec_allows_no_decreases_clause]')
    rep_loop(im, 'parse_with',
             UNB_INV % {'sem': 'sem_repmin::<R, T, Skip>(input0.ctx(), SKIP as nat, 0, input0.off(), old(stack)@.cur)', 'min': '0'},
             STEP % {'stop': STOP_MIN % {'min': '0'}})
    P.hints(im)
    U.emit(im)

    im = with_default(U.impl(F, "NeverFailedTypedNode<'i, R> for RepeatMinMax<Skipped<T, Skip, SKIP>, 0, MAX>").drop_attrs())
    im.keep_methods(['parse_with'])
    im.prepend_in_block("    open spec fn sem_nf(c: Ctx<'i>, pos: nat, st: Seq<Span<'i>>) -> (nat, Seq<Span<'i>>) { sem_repminmax::<R, T, Skip>(c, SKIP as nat, 0, MAX as nat, pos, st).unwrap() }")
    rep_loop(im, 'parse_with', BOUNDED_INV % {'min': '0'}, STEP % {'stop': STOP_MINMAX % {'min': '0'}})
    P.hints(im)
    U.emit(im)

    # ---- AtomicRepeat<T>: repetition without skipping, parse path ---------------------------------------------
    struct(U, 'AtomicRepeat')
    im = U.impl(F, "NeverFailedTypedNode<'i, R> for AtomicRepeat<T>").drop_attrs()
    im.keep_methods(['parse_with'])
    im.prepend_in_block("    open spec fn sem_nf(c: Ctx<'i>, pos: nat, st: Seq<Span<'i>>) -> (nat, Seq<Span<'i>>) { sem_repmin::<R, T, NoSkip>(c, 0, 0, pos, st).unwrap() }")
    im.ret('r', fname='parse_with')
    im.contract('''        ensures atomic_units_ok::<R, T>(input.ctx(), input.off(), old(stack)@.cur, r.1.content@),
                rep_state::<R, T, NoSkip>(input.ctx(), 0, r.1.content@.len(), input.off(), old(stack)@.cur) == Some((r.0.off(), final(stack)@.cur)),''', fname='parse_with')
    im.attr('    #[verifier::loop_isolation(false)]')
    im.attr('    #[verifier::exec_allows_no_decreases_clause]')
    im.body_start('        let ghost input0 = input;')
    im.loop(1, it='it', inv='''            invariant_except_break
                !vf_done,
                rep_state::<R, T, NoSkip>(input0.ctx(), 0, it.index@ as nat, input0.off(), old(stack)@.cur)
                    == Some((input.off(), stack@.cur)),
                vec@.len() == it.index@,
            invariant
                inv(input), input.ctx() == input0.ctx(), input.off() >= input0.off(),
                stack@.snaps == old(stack)@.snaps, stack_all_wf(stack@),
                atomic_units_ok::<R, T>(input0.ctx(), input0.off(), old(stack)@.cur, vec@),
            ensures
                vf_done ==> sem_repmin::<R, T, NoSkip>(input0.ctx(), 0, 0, input0.off(), old(stack)@.cur) == Some((input.off(), stack@.cur)),
                vf_done ==> rep_state::<R, T, NoSkip>(input0.ctx(), 0, vec@.len(), input0.off(), old(stack)@.cur)
                    == Some((input.off(), stack@.cur)),''')
    im.closure(1, params=P.STACK_PARAM, contract=P.cl_parse('T'))
    im.loop_body_start(1, '''            proof {
                let i = it.index@ as nat;
                assert(unit_sem::<R, T, NoSkip>(input0.ctx(), 0, i, input.off(), stack@.cur) == T::sem(input0.ctx(), input.off(), stack@.cur)) by {
                    assert(skip_k::<R, NoSkip>(input0.ctx(), 0, input.off(), stack@.cur) == (input.off(), stack@.cur));
                }
                assert(rep_state::<R, T, NoSkip>(input0.ctx(), 0, i + 1, input0.off(), old(stack)@.cur)
                    == unit_sem::<R, T, NoSkip>(input0.ctx(), 0, i, input.off(), stack@.cur));
                if unit_sem::<R, T, NoSkip>(input0.ctx(), 0, i, input.off(), stack@.cur) is None {
                    lemma_repmin_at::<R, T, NoSkip>(input0.ctx(), 0, 0, i, input0.off(), old(stack)@.cur);
                }
            }
            let ghost vf_vec0 = vec@;''')
    im.after('vec.push(matched);', '''                    proof {
                        assert forall|k: int| 0 <= k < vec@.len() implies unit_ok::<R, T, NoSkip>(input0.ctx(), 0, input0.off(), old(stack)@.cur, k as nat, #[trigger] vec@[k]) by {
                            if k < vec@.len() - 1 { assert(vec@[k] == vf_vec0[k]); }
                            else { assert(skip_k::<R, NoSkip>(input0.ctx(), 0, input.off(), stack@.cur) == (input.off(), stack@.cur)); }
                        }
                    }''')
    P.hints(im)
    U.emit(im)
    im = U.impl(F, "TypedNode<'i, R> for AtomicRepeat<T>").drop_attrs()
    im.keep_methods(['try_parse_partial_with'])
    im.prepend_in_block(P.semdef("Some(sem_repmin::<R, T, NoSkip>(c, 0, 0, pos, st).unwrap())",
                                 "atomic_units_ok::<R, T>(c, pos, st, n.content@) && rep_state::<R, T, NoSkip>(c, 0, n.content@.len(), pos, st) is Some && (rep_state::<R, T, NoSkip>(c, 0, n.content@.len(), pos, st)->0).0 == end"))
    U.emit(im)
