// Appended (as a module) to main/src/lib.rs of the scratch copy before `-Zunpretty=expanded`, so that the
// rule-kind macros of rule.rs are expanded by rustc itself with the arguments the generator passes
// (generator/src/graph.rs: atomic_rule!/compound_atomic_rule!/non_atomic_rule!/normal_rule!/silent_rule!/rule_eoi!).
// `VInner` / `VSkip` are placeholders: in the Verus unit they are abstract nodes with an arbitrary denotation.
#[allow(missing_docs, non_camel_case_types, dead_code, unused_qualifications)]
pub mod verif_rules {
    pub type VInner = crate::predefined_node::ANY;
    pub type VSkip<'i> = crate::predefined_node::Empty<'i>;
    #[derive(Clone, Copy, Debug, Eq, Hash, Ord, PartialEq, PartialOrd)]
    pub enum VRule { EOI, A, C, N, X, S }
    crate::atomic_rule!(VAtomic, "a", VRule, VRule::A, VInner);
    crate::compound_atomic_rule!(VCompound, "c", VRule, VRule::C, VInner, false);
    crate::non_atomic_rule!(VNonAtomic, "n", VRule, VRule::N, VInner, VSkip<'i>, false);
    crate::normal_rule!(VNormal, "x", VRule, VRule::X, VInner, VSkip<'i>, false);
    crate::silent_rule!(VSilent, "s", VRule, VRule::S, VInner, VSkip<'i>, false);
    crate::rule_eoi!(VEoi, VRule);
}
