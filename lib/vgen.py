"""vgen — build one Verus input file ("unit") from items extracted from /repo plus ghost text.

A unit description is a Python module in /verif/units with `build(U)`; it asks `U` for items *by name*
(`U.fn`, `U.impl`, `U.block_item`), attaches contracts / invariants / proof text to them and emits
them in order, interleaved with `U.ghost(...)` text (spec fns, lemmas, trait declarations).

Everything that changes extracted *executable* text is a named rewrite (R1..R6 of DESIGN.md §3.1 or a
unit-specific `rw` with a rule tag) and is logged; the log and a unified diff between the
source text and the verified text are written next to the generated file on every run.
A rewrite that does not apply the expected number of times, or an anchor that is not found, raises
ExtractError → exit 2 (undecided), never a violation.
"""
import difflib
import os
import re

from rsx import ExtractError, Src, code_mask, match_close, split_top_commas, find_code


# ------------------------------------------------------------------------------------------------
# R1: tracker erasure
# ------------------------------------------------------------------------------------------------
def _closure_body(arg):
    """arg is the text of a closure expression `|x| BODY` (possibly with leading whitespace)."""
    s = arg.strip()
    if not s.startswith('|'):
        raise ExtractError('R1: expected a closure, got: ' + s[:60])
    j = s.find('|', 1)
    body = s[j + 1:].strip()
    return body


def r1_tracker(text, log):
    # a/b: tracker.X_during(...) -> closure body
    while True:
        mask = code_mask(text)
        ms = find_code(text, mask, r'\btracker\s*\.\s*(positive_during|negative_during|record_during_with|record_during)\s*\(', regex=True)
        if not ms:
            break
        m = ms[-1]  # innermost-last first keeps offsets of earlier ones valid
        op = m.end() - 1
        cl = match_close(text, mask, op)
        args = split_top_commas(text[op + 1:cl])
        kind = m.group(1)
        if kind in ('positive_during', 'negative_during'):
            if len([a for a in args if a.strip()]) != 1:
                raise ExtractError('R1: %s with %d args' % (kind, len(args)))
            body = _closure_body(args[0])
        elif kind == 'record_during':
            body = _closure_body(args[1])
        else:
            body = _closure_body(args[1])
        text = text[:m.start()] + '(' + body + ')' + text[cl + 1:]
        log.append(('R1', 'tracker.%s(.., |tracker| B, ..) -> (B)' % kind))
    # c: statements
    for pat, what in [
        (r'[ \t]*\btracker\s*\.\s*(empty_stack|out_of_bound|repeat_too_many_times)\s*\([^;]*\)\s*;[ \t]*\n', 'tracker.<report>(..); removed'),
        (r'[ \t]*let\s+mut\s+tracker\s*=\s*Tracker::new\([^;]*\)\s*;[ \t]*\n', 'let mut tracker = Tracker::new(..); removed'),
    ]:
        text, k = re.subn(pat, '', text)
        for _ in range(k):
            log.append(('R1', what))
    # d: parameters
    text, k = re.subn(r'\b_?tracker\s*:\s*&mut\s+(?:crate::tracker::|crate::)?Tracker<\s*\'i\s*,\s*[\w$]+\s*>\s*,?\s*', '', text)
    for _ in range(k):
        log.append(('R1', 'parameter tracker: &mut Tracker<..> removed'))
    # e: arguments
    text, k = re.subn(r',\s*(?:&mut\s+)?tracker\b(?=\s*[,)])', '', text)
    for _ in range(k):
        log.append(('R1', 'argument tracker removed'))
    mask = code_mask(text)
    left = find_code(text, mask, r'\btracker\b', regex=True)
    if left:
        raise ExtractError('R1: tracker still mentioned after erasure near: ' + text[left[0].start() - 40:left[0].start() + 40])
    return text


R2_TABLE = [
    ('::core::option::Option::', 'Option::'),
    ('::core::option::Option', 'Option'),
    ('::core::primitive::', ''),
    ('::core::default::Default', 'Default'),
    ('crate::predefined_node::', ''),
    ('crate::tracker::', ''),
    ('crate::choices::', ''),
    ('crate::rule::', ''),
    ('crate::', ''),
    ('$crate::', ''),
]


def r2_paths(text, log):
    for a, b in R2_TABLE:
        k = text.count(a)
        if k:
            text = text.replace(a, b)
            log.append(('R2', 'path prefix %s -> %s  x%d' % (a, b or "''", k)))
    return text


def r6_rangefrom(text, log):
    """for X in 0usize.. { B }   =>
         let ghost mut vf_done = false;
         for X in 0usize..usize::MAX { B' }          B' = B with `break` -> `{ proof { vf_done = true; } break }`
         proof { if !vf_done { range_from_has_no_end(); } }
    i.e. the only assumption is that the loop is never left by exhausting 2^64-1 iterations (where the
    original `0usize..` would overflow); leaving it by `break` is unaffected."""
    out = text
    while True:
        mask = code_mask(out)
        ms = find_code(out, mask, r'\bfor\s+(\w+)\s+in\s+0usize\.\.\s*\{', regex=True)
        if not ms:
            break
        m = ms[0]
        ob = m.end() - 1
        cb = match_close(out, mask, ob)
        body = out[ob:cb + 1]
        bmask = code_mask(body)
        if find_code(body, bmask, r'\b(for|while|loop)\b', regex=True):
            raise ExtractError('R6: nested loop inside a `for .. in 0usize..` body')
        brs = find_code(body, bmask, r'\bbreak\b', regex=True)
        for bm in reversed(brs):
            body = body[:bm.start()] + '{ proof { vf_done = true; } break }' + body[bm.end():]
        head = out[m.start():ob].replace('0usize..', '0usize..usize::MAX')
        ls = out.rfind('\n', 0, m.start()) + 1
        indent = out[ls:m.start()]
        out = (out[:ls] + indent + 'let ghost mut vf_done = false;\n' + indent + head + body
               + '\n' + indent + 'proof { if !vf_done { range_from_has_no_end(); } }' + out[cb + 1:])
        log.append(('R6', 'for %s in 0usize.. -> 0usize..usize::MAX, ghost exit flag at %d break(s), range_from_has_no_end() on exhaustion' % (m.group(1), len(brs))))
    return out


# ------------------------------------------------------------------------------------------------
class Item:
    """A chunk of extracted text with splice operations.  Offsets are recomputed per operation."""

    def __init__(self, unit, name, text, origin, kind):
        self.unit = unit
        self.name = name
        self.orig = text
        self.text = text
        self.origin = origin  # "file:line"
        self.kind = kind
        self.log = []
        self.ghost_lines = 0

    # -- executable rewrites (logged) -------------------------------------------------------------
    def std(self, r1=True, r6=True):
        if r1:
            self.text = r1_tracker(self.text, self.log)
        self.text = r2_paths(self.text, self.log)
        if r6:
            self.text = r6_rangefrom(self.text, self.log)
        return self

    def rw(self, rule, pat, repl, count=1, regex=False):
        """Unit-specific rewrite of executable text (e.g. R3 shim).  Must apply exactly `count` times."""
        if hasattr(self, '_splices'):
            raise ExtractError('%s: executable rewrite after ghost splices' % self.name)
        if regex:
            new, k = re.subn(pat, repl, self.text)
        else:
            k = self.text.count(pat)
            new = self.text.replace(pat, repl)
        if k != count:
            raise ExtractError('%s: rewrite %s `%s` applied %d times, expected %d' % (self.name, rule, pat, k, count))
        self.text = new
        self.log.append((rule, '%s -> %s  x%d' % (pat, repl, k)))
        return self

    def rw_slices(self, exclude=()):
        """R3, generic form: string slicing expressions become shim calls, whatever their operands are
        (so an edited bound still reaches the verifier instead of losing the rewrite anchor):
          &E[a..]  &E[..b]  &E[a..b]           -> shim_index_from / _to / _range (E, a, b)
          E.get_unchecked(a..) / (a..b)          -> shim_get_unchecked_from / _range
          E.get(a..) / (..b) / (a..b)            -> shim_get_from / _to / _range
        E is a path of identifiers / field accesses / nullary method calls."""
        if hasattr(self, '_splices'):
            raise ExtractError('%s: executable rewrite after ghost splices' % self.name)
        recv = r'((?:[A-Za-z_]\w*)(?:\.[A-Za-z_]\w*(?:\(\))?)*)'
        n = 0
        while True:
            t = self.text
            mask = code_mask(t)
            hit = None
            ex = []
            if exclude:
                sx = Src(t, self.name)
                for nm in exclude:
                    st_, se_, bo_, bc_ = sx.find_fn(nm)
                    ex.append((st_, bc_))
            inex = lambda pos: any(a_ <= pos <= b_ for a_, b_ in ex)
            for m in re.finditer(r'&' + recv + r'\[', t):
                if not mask[m.start()] or inex(m.start()):
                    continue
                ob = m.end() - 1
                cb = match_close(t, mask, ob)
                inner = t[ob + 1:cb]
                if '..' in inner and '..=' not in inner:
                    hit = ('index', m.start(), cb + 1, m.group(1), inner)
                    break
            if hit is None:
                for m in re.finditer(recv + r'\.(get_unchecked|get)\(', t):
                    if not mask[m.start()] or inex(m.start()):
                        continue
                    ob = m.end() - 1
                    cb = match_close(t, mask, ob)
                    inner = t[ob + 1:cb]
                    if '..' in inner and '..=' not in inner:
                        hit = (m.group(2), m.start(), cb + 1, m.group(1), inner)
                        break
            if hit is None:
                break
            kind, a, b, e, inner = hit
            lo, hi = inner.split('..', 1)
            lo, hi = lo.strip(), hi.strip()
            base = {'index': 'shim_index', 'get': 'shim_get', 'get_unchecked': 'shim_get_unchecked'}[kind]
            if lo and hi:
                call = '%s_range(%s, %s, %s)' % (base, e, lo, hi)
            elif lo:
                call = '%s_from(%s, %s)' % (base, e, lo)
            elif hi:
                call = '%s_to(%s, %s)' % (base, e, hi)
            else:
                raise ExtractError('%s: full-range slice not supported' % self.name)
            self.text = t[:a] + call + t[b:]
            self.log.append(('R3', '%s -> %s' % (t[a:b], call)))
            n += 1
        return self

    def rw_continue_else(self, expect=None):
        """R11: `let X = if let PAT = E { A } else { continue; }; REST` (REST = the remainder of the enclosing loop body)
        becomes `if let PAT = E { let X = A; REST }` — the same control flow without `continue`, which Verus does not
        support inside `for` loops.  Applies only when the `else` block is exactly `continue;` and the statement sits
        directly in a loop body."""
        if hasattr(self, '_splices'):
            raise ExtractError('%s: executable rewrite after ghost splices' % self.name)
        k = 0
        while True:
            t = self.text
            mask = code_mask(t)
            hit = None
            for m in find_code(t, mask, r'\blet\s+(\w+)\s*=\s*if\s+let\s+', regex=True):
                # then-block
                j = m.end()
                while j < len(t) and not (mask[j] and t[j] == '{'):
                    j += 1
                tb_open = j
                tb_close = match_close(t, mask, tb_open)
                me = re.match(r'\s*else\s*\{\s*continue\s*;\s*\}\s*;', t[tb_close + 1:])
                if not me:
                    continue
                stmt_end = tb_close + 1 + me.end()
                # enclosing block: nearest '{' before the statement whose close lies after it
                i = m.start() - 1
                enc_open = None
                while i >= 0:
                    if mask[i] and t[i] == '{':
                        c = match_close(t, mask, i)
                        if c > stmt_end:
                            enc_open = i
                            break
                    i -= 1
                if enc_open is None:
                    continue
                enc_close = match_close(t, mask, enc_open)
                hit = (m, tb_open, tb_close, stmt_end, enc_close)
                break
            if hit is None:
                break
            m, tb_open, tb_close, stmt_end, enc_close = hit
            x = m.group(1)
            head = t[m.start():tb_open]                       # `let X = if let PAT = E `
            cond = re.sub(r'^let\s+\w+\s*=\s*', '', head)      # `if let PAT = E `
            a = t[tb_open + 1:tb_close].strip()
            rest = t[stmt_end:enc_close]
            self.text = t[:m.start()] + cond + '{\n            let ' + x + ' = ' + a + ';' + rest + '}\n        ' + t[enc_close:]
            k += 1
        if expect is not None and k != expect:
            raise ExtractError('%s: rewrite R11 (continue in else) applied %d times, expected %d' % (self.name, k, expect))
        if k:
            self.log.append(('R11', '`let X = if let P = E { A } else { continue; }; REST` -> `if let P = E { let X = A; REST }`  x%d' % k))
        return self

    def stub_body(self, where, fname=None):
        """Contract-only copy of a function: the body is replaced by `unimplemented!()` and the function marked
        external_body; `where` names the unit in which the same text is verified against the same contract."""
        if hasattr(self, '_splices'):
            raise ExtractError('%s: stub_body after ghost splices' % self.name)
        s = Src(self.text, self.name)
        if fname is None:
            fname = find_code(s.text, s.mask, r'\bfn\s+(\w+)', regex=True)[0].group(1)
        st, sig_end, bo, bc = s.find_fn(fname)
        ls = s.text.rfind('\n', 0, st) + 1
        indent = s.text[ls:st] if s.text[ls:st].strip() == '' else ''
        self.text = s.text[:st] + '#[verifier::external_body]\n' + indent + s.text[st:bo] + '{ unimplemented!() }' + s.text[bc + 1:]
        self.log.append(('R5', 'body of %s not taken into this unit (contract only): it is verified against the same contract in unit `%s`' % (fname, where)))
        return self

    def rw_from_fn(self, n, ty, expect=None):
        """R9: `core::array::from_fn(|_| BODY)` (an FnMut closure capturing `&mut` state, outside Verus's subset) becomes
        the loop std documents it to be: BODY evaluated `n` times in increasing index order, results collected in order:
          { let mut vf_arr: Vec<ty> = Vec::new(); for _ in 0..n { let vf_elem = BODY; vf_arr.push(vf_elem); }
            shim_array_from_vec::<ty, n>(vf_arr) }
        `n` and `ty` are checked by rustc against the array type expected at the call site."""
        if hasattr(self, '_splices'):
            raise ExtractError('%s: executable rewrite after ghost splices' % self.name)
        k = 0
        while True:
            t = self.text
            mask = code_mask(t)
            ms = find_code(t, mask, r'(?:::)?core::array::from_fn\(', regex=True)
            if not ms:
                break
            m = ms[0]
            ob = m.end() - 1
            cb = match_close(t, mask, ob)
            arg = t[ob + 1:cb].strip().rstrip(',').strip()
            if not re.match(r'\|\s*_\s*\|', arg):
                raise ExtractError('%s: R9: from_fn argument is not a closure ignoring its index: %s' % (self.name, arg[:60]))
            body = _closure_body(arg)
            repl = ('{ let mut vf_arr: Vec<%s> = Vec::new(); for _ in 0..%s { let vf_elem = %s; vf_arr.push(vf_elem); } shim_array_from_vec::<%s, %s>(vf_arr) }'
                    % (ty, n, body, ty, n))
            self.text = t[:m.start()] + repl + t[cb + 1:]
            k += 1
        if expect is not None and k != expect:
            raise ExtractError('%s: rewrite R9 (array::from_fn) applied %d times, expected %d' % (self.name, k, expect))
        if k:
            self.log.append(('R9', 'core::array::from_fn(|_| BODY) -> loop evaluating BODY %s times in order, collected with shim_array_from_vec  x%d' % (n, k)))
        return self

    def drop_attrs(self):
        """Remove doc comments / attributes in front (ghost-irrelevant)."""
        lines = self.text.split('\n')
        out = []
        for ln in lines:
            s = ln.strip()
            if s.startswith('///') or s.startswith('#[doc') or s.startswith('#[inline') or s.startswith('#[allow') or s.startswith('#[automatically_derived'):
                continue
            out.append(ln)
        self.text = '\n'.join(out)
        return self

    # -- ghost splices -------------------------------------------------------------------------------
    # All splice operations are computed against the text as it is after the executable rewrites
    # (which must come first) and applied together by finalize(), so ghost text containing braces,
    # bars or loop keywords cannot confuse later anchors.
    def _freeze(self):
        if not hasattr(self, '_splices'):
            self._splices = []
            self._s = Src(self.text, self.name)
        return self._s

    def _ins(self, pos, text, prio=0):
        self._splices.append((pos, pos, text, prio))
        self.ghost_lines += text.count('\n') + 1

    def _rep(self, a, b, text):
        self._splices.append((a, b, text, 0))

    def finalize(self):
        if not hasattr(self, '_splices'):
            return self.text
        t = self.text
        # descending position; for equal positions higher prio goes first in the output
        for a, b, text, prio in sorted(self._splices, key=lambda x: (x[0], -x[3]), reverse=True):
            t = t[:a] + text + t[b:]
        return t

    def _fn_span(self, fname=None, nth=0):
        s = self._freeze()
        if fname is None:
            ms = find_code(s.text, s.mask, r'\bfn\s+(\w+)', regex=True)
            if not ms:
                raise ExtractError('%s: no fn inside item' % self.name)
            fname = ms[0].group(1)
        return s, s.find_fn(fname, nth=nth)

    def ret(self, rname, fname=None):
        """`-> T {`  =>  `-> (rname: T) {`  (names the result for the ensures clause)."""
        s, (st, sig_end, bo, bc) = self._fn_span(fname)
        sig = s.text[st:sig_end]
        mask = s.mask[st:sig_end]
        idx = -1
        depth = 0
        for i, ch in enumerate(sig):
            if not mask[i]:
                continue
            if ch in '(<[':
                depth += 1
            elif ch in ')]':
                depth -= 1
            elif ch == '>' and sig[i - 1] != '-':
                depth -= 1
            elif ch == '>' and sig[i - 1] == '-' and depth == 0:
                idx = i - 1
        if idx < 0:
            raise ExtractError('%s: no return type to name' % self.name)
        ty = sig[idx + 2:]
        end = len(sig)
        mw = re.search(r'\bwhere\b', ty)
        if mw:
            end = idx + 2 + mw.start()
            ty = ty[:mw.start()]
        self._rep(st + idx, st + end, '-> (' + rname + ': ' + ty.strip() + ')\n')
        return self

    def contract(self, ctext, fname=None):
        s, (st, sig_end, bo, bc) = self._fn_span(fname)
        ins = sig_end if bo is None else bo
        self._ins(ins, '\n' + ctext.rstrip() + '\n', prio=-1)
        return self

    def _loops(self, fname=None):
        s, (st, sig_end, bo, bc) = self._fn_span(fname)
        ms = find_code(s.text, s.mask, r'\b(for|while|loop)\b', bo, bc, regex=True)
        out = []
        for m in ms:
            j = m.end()
            depth = 0
            while j < bc:
                if s.mask[j]:
                    ch = s.text[j]
                    if ch in '([':
                        depth += 1
                    elif ch in ')]':
                        depth -= 1
                    elif ch == '{' and depth == 0:
                        break
                j += 1
            out.append((m.start(), j))
        return s, out

    def loop(self, n, inv, fname=None, it=None):
        """Attach `invariant ... decreases ...` text to the n-th (1-based) loop of the function.
        `it` names the ghost iterator of a `for` loop (`for x in it: e`), Verus syntax, ghost only."""
        s, loops = self._loops(fname)
        if len(loops) < n:
            return self._lost('loop #%d of %s not found (have %d): invariant not attached' % (n, fname or self.name, len(loops)))
        st, ob = loops[n - 1]
        self._ins(ob, '\n' + inv.rstrip() + '\n')
        if it:
            m = re.compile(r'for\s+[^{]*?\bin\s+').match(s.text, st)
            if not m:
                raise ExtractError('%s: loop #%d is not a `for .. in` loop' % (self.name, n))
            self._ins(m.end(), it + ': ')
        return self

    def body_start_all(self, ghost):
        """Ghost text at the start of the body of every fn of the item."""
        s = self._freeze()
        names = []
        for m in find_code(s.text, s.mask, r'\bfn\s+(\w+)', regex=True):
            names.append(m.group(1))
        seen = {}
        for nm in names:
            k = seen.get(nm, 0)
            seen[nm] = k + 1
            st, sig_end, bo, bc = s.find_fn(nm, nth=k)
            if bo is not None:
                self._ins(bo + 1, '\n' + ghost.rstrip() + '\n', prio=4)
        return self

    def attr(self, text, fname=None):
        """Verifier attribute in front of a fn (ghost only), e.g. #[verifier::loop_isolation(false)]."""
        s, (st, sig_end, bo, bc) = self._fn_span(fname)
        self._ins(st, text.rstrip() + '\n', prio=5)
        return self

    def before_loop(self, n, ghost, fname=None):
        """Ghost text immediately before the n-th loop (e.g. ghost snapshots of the loop's entry state)."""
        s, loops = self._loops(fname)
        if len(loops) < n:
            return self._lost('loop #%d of %s not found: ghost text before it not attached' % (n, fname or self.name))
        self._ins(loops[n - 1][0], ghost.rstrip() + '\n', prio=1)
        return self

    def loop_body_start(self, n, ghost, fname=None):
        """Ghost text right after the opening brace of the n-th loop's body."""
        s, loops = self._loops(fname)
        if len(loops) < n:
            return self._lost('loop #%d of %s not found: proof hint not attached' % (n, fname or self.name))
        self._ins(loops[n - 1][1] + 1, '\n' + ghost.rstrip() + '\n', prio=-2)
        return self

    def body_start(self, ghost, fname=None):
        """Ghost text right after the function's opening brace (e.g. `let ghost input0 = input;`)."""
        s, (st, sig_end, bo, bc) = self._fn_span(fname)
        self._ins(bo + 1, '\n' + ghost.rstrip() + '\n', prio=3)
        return self

    def _closures(self, fname=None):
        s, (st, sig_end, bo, bc) = self._fn_span(fname)
        out = []
        for m in find_code(s.text, s.mask, r'\|', bo, bc, regex=True):
            i = m.start()
            if out and i <= out[-1][1]:
                continue
            k = i - 1
            while k > bo and s.text[k].isspace():
                k -= 1
            if s.text[k] not in '(,={;':
                continue
            j = s.text.find('|', i + 1)
            if j < 0 or j > bc:
                continue
            b = j + 1
            while s.text[b].isspace():
                b += 1
            if s.text[b] == '{':
                e = match_close(s.text, s.mask, b) + 1
                block = True
            else:
                depth = 0
                e = b
                while e < bc:
                    if s.mask[e]:
                        ch = s.text[e]
                        if ch in '([{':
                            depth += 1
                        elif ch in ')]}':
                            if depth == 0:
                                break
                            depth -= 1
                        elif ch == ',' and depth == 0:
                            break
                    e += 1
                block = False
            out.append((i, j, b, e, block))
        return s, out

    def closure(self, n, params=None, contract='', fname=None):
        """n-th (1-based) closure: optionally give its parameter list type annotations (`params`
        replaces the text between the bars — names must stay the same), add `-> (r: T) ensures ..`
        and wrap an expression body in braces."""
        s, cls = self._closures(fname)
        if len(cls) < n:
            return self._lost('closure #%d of %s not found (have %d): closure contract not attached' % (n, fname or self.name, len(cls)))
        i, j, b, e, block = cls[n - 1]
        old_params = s.text[i + 1:j]
        if params is not None:
            names_old = [p.split(':')[0].strip() for p in old_params.split(',') if p.strip()]
            names_new = [p.split(':')[0].strip() for p in split_top_commas(params) if p.strip()]
            ok = len(names_old) == len(names_new) and all(a == b or (a == '_' and b.startswith('_')) for a, b in zip(names_old, names_new))
            if ok and names_old != names_new:
                self.log.append(('R8', 'closure parameter `_` given a name (%s): Verus rejects `_` closure parameters' % ', '.join(names_new)))
            if not ok:
                raise ExtractError('%s: closure #%d parameter names %s != %s' % (self.name, n, names_old, names_new))
        else:
            params = old_params
        self._rep(i, j + 1, '|' + params + '| ' + contract.strip() + '\n')
        self.ghost_lines += contract.count('\n') + 1
        if not block:
            self._ins(b, '{ ')
            self._ins(e, ' }', prio=1)
        return self

    def _anchor(self, anchor, nth=0):
        s = self._freeze()
        norm = lambda x: re.sub(r'\s+', ' ', x.strip())
        want = norm(anchor)
        t = s.text
        idx = []
        buf = []
        prev_space = True
        for i, ch in enumerate(t):
            if ch.isspace():
                if not prev_space:
                    buf.append(' ')
                    idx.append(i)
                prev_space = True
            else:
                buf.append(ch)
                idx.append(i)
                prev_space = False
        nt = ''.join(buf)
        pos = -1
        start = 0
        for _ in range(nth + 1):
            pos = nt.find(want, start)
            if pos < 0:
                raise ExtractError('%s: anchor `%s` (occurrence %d) not found' % (self.name, anchor, nth))
            start = pos + 1
        a = idx[pos]
        b = idx[pos + len(want) - 1] + 1
        return a, b

    def _lost(self, what):
        """A ghost splice whose anchor is gone (the code changed shape): the unit is still generated, without that
        ghost text; the fact is reported with the result (a proof that then fails is still a failed obligation)."""
        self.log.append(('LOST', what))
        self.unit.lost.append('%s: %s' % (self.name, what))
        return self

    def after(self, anchor, ghost, nth=0):
        try:
            a, b = self._anchor(anchor, nth)
        except ExtractError as e:
            return self._lost(str(e))
        self._ins(b, '\n' + ghost.rstrip() + '\n')
        return self

    def before(self, anchor, ghost, nth=0):
        try:
            a, b = self._anchor(anchor, nth)
        except ExtractError as e:
            return self._lost(str(e))
        self._ins(a, ghost.rstrip() + '\n', prio=1)
        return self

    def prepend_in_block(self, ghost):
        """Insert ghost text right after the item's opening brace (impl blocks: spec fns)."""
        s = self._freeze()
        j = 0
        while not (s.mask[j] and s.text[j] == '{'):
            j += 1
        self._ins(j + 1, '\n' + ghost.rstrip() + '\n', prio=2)
        return self

    def header_rw(self, pat, repl, rule='R2'):
        """Rewrite inside the item header (text before the first '{')."""
        mask = code_mask(self.text)
        j = 0
        while not (mask[j] and self.text[j] == '{'):
            j += 1
        head = self.text[:j]
        if pat not in head:
            raise ExtractError('%s: header rewrite `%s` not applicable' % (self.name, pat))
        self.text = head.replace(pat, repl) + self.text[j:]
        self.log.append((rule, 'header: %s -> %s' % (pat, repl)))
        return self

    def drop_fns(self, names):
        """Remove the listed fns from a block item (trait / impl); logged as R5."""
        if hasattr(self, '_splices'):
            raise ExtractError('%s: drop_fns after ghost splices' % self.name)
        for nm in names:
            s = Src(self.text, self.name)
            st, sig_end, bo, bc = s.find_fn(nm)
            self.text = s.text[:st] + s.text[bc + 1:]
        self.log.append(('R5', 'methods not taken into the unit: ' + ', '.join(names)))
        return self

    def keep_methods(self, names):
        """For impl items: drop every fn not listed (logged as R5 when something is dropped)."""
        s = Src(self.text, self.name)
        mask = s.mask
        j = 0
        while not (mask[j] and s.text[j] == '{'):
            j += 1
        close = match_close(s.text, mask, j)
        pieces = []
        kept = []
        for nm in names:
            st, sig_end, bo, bc = s.find_fn(nm, j + 1, close)
            pieces.append(s.text[st:bc + 1])
            kept.append(nm)
        allf = [m.group(1) for m in find_code(s.text, mask, r'\bfn\s+(\w+)', j + 1, close, regex=True)]
        # only count fns at depth 1
        dropped = [f for f in allf if f not in names]
        if dropped:
            self.log.append(('R5', 'methods not taken into the unit: ' + ', '.join(sorted(set(dropped)))))
        self.text = s.text[:j + 1] + '\n' + '\n'.join(pieces) + '\n' + s.text[close:]
        return self


def impl_labels(text):
    """Verus names methods of the k-th impl block of the crate `impl&%k::name`; map k -> readable label."""
    s = Src(text, 'generated')
    labels = []
    for m in find_code(s.text, s.mask, r'\bimpl\b', regex=True):
        # skip `impl Trait` in argument position: an impl item is preceded by line start / attributes
        ls = s.text.rfind('\n', 0, m.start()) + 1
        if s.text[ls:m.start()].strip() not in ('', 'pub', 'unsafe'):
            continue
        j = m.end()
        while j < len(s.text) and not (s.mask[j] and s.text[j] == '{'):
            j += 1
        head = re.sub(r'\s+', ' ', s.text[m.start():j]).strip()
        mm = re.search(r'\bfor\s+(.*)$', head)
        if mm:
            lab = mm.group(1)
        else:
            lab = re.sub(r'^impl(<.*?>)?\s*', '', head) if '<' not in head[:5] else head
            mm2 = re.match(r"impl\s*(<[^{]*?>)?\s*([\w:]+.*)$", head)
            lab = mm2.group(2) if mm2 else head
        lab = re.sub(r'\s*where\b.*$', '', lab)
        labels.append(lab.strip())
    return labels


class Unit:
    def __init__(self, name, repo, expanded_path=None):
        self.name = name
        self.repo = repo
        self.expanded_path = expanded_path
        self._src = {}
        self.chunks = []  # (kind, label, text, item-or-None)
        self.functions_under_contract = []
        self.use_lines = []
        self.lost = []

    def src(self, rel):
        if rel not in self._src:
            if rel == 'expanded':
                if not self.expanded_path:
                    raise ExtractError('unit %s needs the macro expansion but none was produced' % self.name)
                p = self.expanded_path
            else:
                p = os.path.join(self.repo, rel)
            try:
                with open(p, encoding='utf-8') as f:
                    self._src[rel] = Src(f.read(), rel)
            except OSError as e:
                raise ExtractError('cannot read %s: %s' % (p, e))
        return self._src[rel]

    # -- extraction -----------------------------------------------------------------------------------
    def fn(self, rel, name, within=None, nth=0, std=True):
        s = self.src(rel)
        lo, hi = (0, None)
        if within is not None:
            st, ob, cb = s.find_impl(within) if isinstance(within, str) else within
            lo, hi = ob, cb
        st, sig_end, bo, bc = s.find_fn(name, lo, hi, nth)
        it = Item(self, name, s.text[st:bc + 1], '%s:%d' % (rel, s.line_of(st)), 'fn')
        if std:
            it.std()
        return it

    def impl(self, rel, header, nth=0, std=True, r1=True):
        s = self.src(rel)
        st, ob, cb = s.find_impl(header, nth=nth)
        it = Item(self, 'impl ' + re.sub(r'\s+', ' ', header), s.text[st:cb + 1], '%s:%d' % (rel, s.line_of(st)), 'impl')
        if std:
            it.std(r1=r1)
        return it

    def block_item(self, rel, regex_pat, label, nth=0, std=True):
        s = self.src(rel)
        st, ob, cb = s.find_block_item(regex_pat, nth=nth)
        it = Item(self, label, s.text[st:cb + 1], '%s:%d' % (rel, s.line_of(st)), 'item')
        if std:
            it.std(r1=False, r6=False)
        return it

    def use(self, path):
        self.use_lines.append('use %s;\n' % path)

    # -- emission ---------------------------------------------------------------------------------------
    def ghost(self, text, label='ghost'):
        self.chunks.append(('ghost', label, text.strip('\n') + '\n', None))

    def emit(self, item, under_contract=True):
        if under_contract and '#[verifier::external_body]' not in item.text:
            # reachability marker at the start of every function body (used by the vacuity pass of vrun: replaced by
            # `assert(false)`, which must FAIL — a contradictory precondition would make it pass)
            item.body_start_all('        /*VF-REACH*/')
        item.final = item.finalize()
        self.chunks.append(('item', item.name, item.final.strip('\n') + '\n', item))
        if under_contract:
            self.functions_under_contract.append('%s (%s)' % (item.name, item.origin))

    def render(self):
        """Return (text, linemap) — linemap: list of (first_line, last_line, kind, label)."""
        out = ['// GENERATED by /verif/lib/vgen.py for unit `%s` — do not edit; rebuilt from /repo on every run.\n' % self.name,
               '#![allow(unused_imports, unused_variables, unused_mut, dead_code, non_camel_case_types, unused_parens, unused_braces, unused_assignments)]\n',
               'use vstd::prelude::*;\n'] + self.use_lines + ['verus! {\n']
        linemap = []
        line = sum(x.count('\n') for x in out) + 1
        for kind, label, text, item in self.chunks:
            n = text.count('\n')
            if kind == 'item':
                hdr = '// ---- extracted: %s  [%s] ----\n' % (label, item.origin)
            else:
                hdr = '// ---- ghost: %s ----\n' % label
            out.append(hdr)
            line += 1
            linemap.append((line, line + n - 1, kind, label))
            out.append(text)
            line += n
        out.append('} // verus!\nfn main() {}\n')
        text = ''.join(out)
        self.impl_labels = impl_labels(text)
        return text, linemap

    def rewrite_report(self):
        """Human-readable: per item, the rewrite log and the diff source→verified text."""
        rep = []
        for kind, label, text, item in self.chunks:
            if item is None:
                continue
            rep.append('=== %s  [%s]  (%d ghost lines spliced)\n' % (label, item.origin, item.ghost_lines))
            for rule, what in item.log:
                rep.append('  %s: %s\n' % (rule, what))
            d = difflib.unified_diff(item.orig.splitlines(True), item.final.splitlines(True), 'source', 'verified', n=1)
            rep.extend(d)
            rep.append('\n')
        return ''.join(rep)

    def shapes(self):
        """Per extracted item: a coarse fingerprint of the *shape* of the source text the proof text was written for —
        which rewrite rules applied how often, how many loops and closures it has, which ghost anchors were lost.
        A proof failure inside an item whose shape differs from the blessed one is not reported as a violation (the
        invariants / closure contracts no longer line up with the code): it is undecided."""
        out = {}
        for kind, label, text, item in self.chunks:
            if item is None:
                continue
            mask = code_mask(item.orig)
            code = ''.join(ch if m else ' ' for ch, m in zip(item.orig, mask))
            rules = {}
            for rule, what in item.log:
                rules[rule] = rules.get(rule, 0) + 1
            sh = {'rules': rules,
                  'loops': len(re.findall(r'\b(?:for|while|loop)\b', code)),
                  'bars': len(re.findall(r'(?<!\|)\|(?![|=])', code)),
                  'fns': len(re.findall(r'\bfn\s+\w+', code))}
            if label in out:
                for k in ('loops', 'bars', 'fns'):
                    out[label][k] += sh[k]
                for r, n in rules.items():
                    out[label]['rules'][r] = out[label]['rules'].get(r, 0) + n
            else:
                out[label] = sh
        for l in self.lost:
            lab = l.split(': ', 1)[0]
            if lab in out:
                out[lab]['lost'] = out[lab].get('lost', 0) + 1
        return out

    def rewrite_counts(self):
        c = {}
        for kind, label, text, item in self.chunks:
            if item is None:
                continue
            for rule, what in item.log:
                c[rule] = c.get(rule, 0) + 1
        return c
