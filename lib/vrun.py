"""vrun — generate a Verus unit from /repo's working tree, run Verus, classify the outcome."""
import importlib.util
import json
import os
import re
import subprocess
import sys
import time

HERE = os.path.dirname(os.path.abspath(__file__))
VERIF = os.path.dirname(HERE)
sys.path.insert(0, HERE)
sys.path.insert(0, os.path.join(VERIF, 'units'))

from rsx import ExtractError  # noqa: E402
from vgen import Unit  # noqa: E402

VIOLATION_PATTERNS = [
    'postcondition not satisfied', 'precondition not satisfied', 'assertion failed',
    'invariant not satisfied', 'possible arithmetic underflow/overflow', 'possible division by zero',
    'decreases not satisfied', 'possible bit shift underflow/overflow', 'unreachable',
    'cannot show invariant', 'failed this postcondition', 'assertion not satisfied',
    'loop invariant not satisfied', 'recommendation not met', 'index out of bounds',
    'constructed value may fail to meet its declared type invariant', 'may panic',
    'cannot prove termination', 'possible attempt to'
]
UNDECIDED_PATTERNS = ['rlimit exceeded', 'Resource limit', 'timed out', 'internal error', 'panicked at']


def load_unit_module(name):
    p = os.path.join(VERIF, 'units', name + '.py')
    spec = importlib.util.spec_from_file_location('unit_' + name, p)
    mod = importlib.util.module_from_spec(spec)
    spec.loader.exec_module(mod)
    return mod


def scan_trusted(text):
    """Mechanical scan of the generated file for assumption-introducing constructs."""
    hits = []
    lines = text.split('\n')
    for i, ln in enumerate(lines):
        code = ln.split('//')[0]
        for key in ('external_body', 'assume_specification', 'assume(', 'admit(', 'verifier::external]', 'external_type_specification', 'external_trait_specification', 'uninterp', 'axiom fn'):
            if key in code:
                # name: next fn/struct identifier within 6 lines
                nm = ''
                for k in range(i, min(i + 8, len(lines))):
                    m = re.search(r'assume_specification.*?\[\s*([^\]]+)\]', lines[k])
                    if m:
                        nm = m.group(1).strip()
                        break
                    m = re.search(r'\b(?:fn|struct|spec fn|proof fn)\s+(\w+)', lines[k])
                    if m:
                        nm = m.group(1)
                        break
                hits.append((key, nm, i + 1))
    return hits


def parse_errors(stderr, linemap, fname):
    """Split rustc-style diagnostics into blocks; map to owner item via first span in `fname`."""
    blocks = re.split(r'\n(?=error|warning|note: )', stderr)
    out = []
    for b in blocks:
        if not b.startswith('error'):
            continue
        head = b.split('\n', 1)[0]
        locs = [int(m.group(1)) for m in re.finditer(re.escape(os.path.basename(fname)) + r':(\d+):\d+', b)]
        # secondary spans of the same diagnostic are printed as snippet lines `NNN | code` without a file prefix
        # (e.g. the function body a failed trait postcondition belongs to)
        locs += [int(m.group(1)) for m in re.finditer(r'(?m)^\s*(\d+) \|', b)]
        owner = None
        for ln in locs:
            for a, z, kind, label in linemap:
                if a <= ln <= z:
                    owner = (kind, label)
                    break
            if owner and owner[0] == 'item':
                break
        out.append({'head': head.strip(), 'lines': locs, 'owner': owner, 'text': b.strip()[:2500]})
    return out


def run_unit(name, repo, workdir, expanded=None, rlimit=30, bless=False, threads=4):
    t0 = time.time()
    res = {'unit': name, 'status': 'undecided', 'reason': '', 'obligations': [], 'failed': [],
           'functions_under_contract': [], 'smt_ms': 0, 'wall_s': 0.0, 'trusted': [], 'rewrites': {},
           'file': None, 'checker_cmd': ''}
    try:
        mod = load_unit_module(name)
        U = Unit(name, repo, expanded)
        mod.build(U)
        text, linemap = U.render()
        labels = U.impl_labels
    except ExtractError as e:
        res['reason'] = 'extraction: %s' % e
        res['wall_s'] = time.time() - t0
        return res
    os.makedirs(workdir, exist_ok=True)
    fpath = os.path.join(workdir, 'u_%s.rs' % name.replace('-', '_'))
    with open(fpath, 'w', encoding='utf-8') as f:
        f.write(text)
    with open(os.path.join(workdir, 'u_%s.rewrites.txt' % name), 'w', encoding='utf-8') as f:
        f.write(U.rewrite_report())
    res['file'] = fpath
    res['functions_under_contract'] = U.functions_under_contract
    res['rewrites'] = U.rewrite_counts()
    res['lost_anchors'] = list(U.lost)
    shapes = U.shapes()
    res['trusted'] = ['%s %s (line %d)' % h for h in scan_trusted(text)]
    flags = list(getattr(mod, 'VERUS_FLAGS', []))
    cmd = ['verus', fpath, '--output-json', '--time', '--rlimit', str(rlimit), '--num-threads', str(threads), '--multiple-errors', '4'] + flags
    for fl in flags:
        res['trusted'].append('verus flag %s (%s)' % (fl, getattr(mod, 'VERUS_FLAGS_WHY', '')))
    res['checker_cmd'] = ' '.join(cmd)
    try:
        p = subprocess.run(cmd, cwd=workdir, capture_output=True, text=True, timeout=1500)
    except subprocess.TimeoutExpired:
        res['reason'] = 'verus timeout'
        res['wall_s'] = time.time() - t0
        return res
    res['wall_s'] = time.time() - t0
    try:
        js = json.loads(p.stdout)
    except Exception:
        js = None
    errs = parse_errors(p.stderr, linemap, fpath)
    res['stderr_tail'] = p.stderr[-4000:]
    if js is None:
        res['reason'] = 'verus produced no JSON (rc=%s): %s' % (p.returncode, p.stderr[-1500:])
        return res
    vr = js.get('verification-results', {})
    times = js.get('times-ms', {})
    fb = []
    for mt in times.get('smt', {}).get('smt-run-module-times', []):
        fb.extend(mt.get('function-breakdown', []))
    res['smt_ms'] = times.get('smt', {}).get('total', 0)
    prefix = 'u_%s::' % name.replace('-', '_')
    obl = {}
    for f in fb:
        fn = f['function']
        if fn.startswith(prefix):
            fn = fn[len(prefix):]
        mi = re.match(r'impl&%(\d+)::(.*)$', fn)
        if mi and int(mi.group(1)) < len(labels):
            fn = '<%s>::%s' % (labels[int(mi.group(1))], mi.group(2))
        key = '%s/%s' % (name, fn)
        ok = bool(f.get('success'))
        if key in obl:
            obl[key]['success'] = obl[key]['success'] and ok
            obl[key]['ms'] += f.get('time', 0)
        else:
            obl[key] = {'name': key, 'mode': f.get('mode:', f.get('mode', '')), 'success': ok, 'ms': f.get('time', 0)}
    res['obligations'] = list(obl.values())
    res['verified'] = vr.get('verified', 0)
    res['errors'] = vr.get('errors', 0)
    if vr.get('encountered-vir-error') or (vr.get('encountered-error') and not fb):
        res['reason'] = 'verus rejected the generated text (unsupported construct or type error): ' + '; '.join(e['head'] for e in errs[:3])
        res['err_blocks'] = errs[:5]
        return res
    # expected obligations
    oblig_path = os.path.join(VERIF, 'units', name + '.oblig')
    names = sorted(obl.keys())
    shape_path = os.path.join(VERIF, 'units', name + '.shape')
    if bless:
        with open(oblig_path, 'w') as f:
            f.write('\n'.join(names) + '\n')
        with open(shape_path, 'w') as f:
            json.dump(shapes, f, indent=0, sort_keys=True)
            f.write('\n')
    base_shapes = json.load(open(shape_path)) if os.path.exists(shape_path) else None
    changed = sorted(l for l in shapes if base_shapes is not None and shapes[l] != base_shapes.get(l)) if base_shapes is not None else []
    res['shape_changed'] = changed
    expected = []
    if os.path.exists(oblig_path):
        expected = [l.strip() for l in open(oblig_path) if l.strip()]
    res['expected'] = expected
    failing = [o for o in obl.values() if not o['success']]
    und = [e for e in errs if any(k in e['text'] for k in UNDECIDED_PATTERNS)]
    if failing or vr.get('errors', 0) > 0:
        # classify
        viol = [e for e in errs if any(k in e['text'] for k in VIOLATION_PATTERNS) and e not in und]
        res['failed'] = [{'obligation': o['name'],
                          'messages': [e['text'] for e in errs if _owner_matches(e, o['name'])][:4]} for o in failing]
        if und and not viol:
            res['status'] = 'undecided'
            res['reason'] = 'solver gave up: ' + und[0]['head']
            return res
        if not viol and not failing:
            res['status'] = 'undecided'
            res['reason'] = 'verus reported errors that are not proof failures: ' + '; '.join(e['head'] for e in errs[:3])
            return res
        if not res['failed']:
            res['failed'] = [{'obligation': '%s/?' % name, 'messages': [e['text'] for e in viol[:4]]}]
        for fobj in res['failed']:
            if not fobj['messages']:
                fobj['messages'] = [e['text'] for e in viol[:3]]
        known_expected = set(expected)
        if expected and not any(f['obligation'] in known_expected for f in res['failed']):
            res['status'] = 'undecided'
            res['reason'] = 'failing obligations are not in the committed obligation list'
            return res
        # a proof failure inside an item whose source changed shape (other rewrites apply, loops / closures added or
        # removed, a ghost anchor lost) means the proof text no longer lines up with the code: undecided, not an alarm.
        # Only failures located in items of unchanged shape are violations.
        if base_shapes is None:
            res['status'] = 'undecided'
            res['reason'] = 'no committed shape profile for unit (run with --bless on the unchanged tree)'
            return res
        def in_changed(e):
            return e['owner'] is not None and e['owner'][0] == 'item' and e['owner'][1] in changed
        solid = [e for e in viol if not in_changed(e)]
        if changed and not solid:
            res['status'] = 'undecided'
            res['reason'] = ('proof failed only inside code whose shape changed (%s): the proof text no longer lines up with it — not an alarm; '
                             'the bounded stand-ins decide' % '; '.join(changed[:3]))
            if res.get('lost_anchors'):
                res['reason'] += ' [' + '; '.join(res['lost_anchors'][:3]) + ']'
            return res
        if changed:
            keep = []
            for fobj in res['failed']:
                msgs = [e['text'] for e in solid if _owner_matches(e, fobj['obligation'])]
                if msgs:
                    fobj['messages'] = msgs[:4]
                    keep.append(fobj)
            res['failed'] = keep or res['failed']
        res['status'] = 'violation'
        res['reason'] = '; '.join(sorted(set(e['head'] for e in solid))[:4])
        return res
    if vr.get('encountered-error') and not flags:
        res['status'] = 'undecided'
        res['reason'] = 'verus reported a non-proof error after verification: ' + '; '.join(e['head'] for e in errs[:3])
        return res
    # all green: vacuity guard
    if not expected:
        res['status'] = 'undecided'
        res['reason'] = 'no committed obligation list for unit (run with --bless on the unchanged tree)'
        return res
    missing = [e for e in expected if e not in obl]
    if missing:
        res['status'] = 'undecided'
        res['reason'] = 'vacuity guard: expected obligations not attempted: ' + ', '.join(missing[:5])
        return res
    # vacuity pass: every function body under contract must be reachable — `assert(false)` at its start must fail
    vac = vacuity_pass(text, fpath, workdir, flags, rlimit, threads)
    res['vacuity'] = vac
    if vac['unreachable']:
        res['status'] = 'undecided'
        res['reason'] = 'vacuity guard: `assert(false)` at the start of a function body was PROVED (contradictory precondition or unreachable body) at generated line(s) %s' % vac['unreachable'][:5]
        return res
    res['status'] = 'ok'
    return res


def vacuity_pass(text, fpath, workdir, flags, rlimit, threads):
    lines = text.split('\n')
    def unverified(i):
        # the marker sits in a function that Verus does not verify (external_body attached by a later splice)
        k = i
        while k >= 0 and not re.search(r'\bfn\s+\w+', lines[k]):
            k -= 1
        return any('external_body' in lines[j] for j in range(max(0, k - 3), k + 1))
    marks = [i + 1 for i, ln in enumerate(lines) if '/*VF-REACH*/' in ln and not unverified(i)]
    if not marks:
        return {'markers': 0, 'unreachable': [], 'wall_s': 0.0}
    t0 = time.time()
    vtext = text.replace('/*VF-REACH*/', 'proof { assert(false); }')
    vpath = fpath[:-3] + '_vacuity.rs'
    with open(vpath, 'w', encoding='utf-8') as f:
        f.write(vtext)
    cmd = ['verus', vpath, '--rlimit', str(rlimit), '--num-threads', str(threads), '--multiple-errors', '2'] + list(flags)
    try:
        p = subprocess.run(cmd, cwd=workdir, capture_output=True, text=True, timeout=1500)
    except subprocess.TimeoutExpired:
        return {'markers': len(marks), 'unreachable': [], 'wall_s': time.time() - t0, 'note': 'timeout (not counted)'}
    failed_lines = set()
    for b in re.split(r'\n(?=error)', p.stderr):
        if b.startswith('error: assertion failed'):
            for m in re.finditer(re.escape(os.path.basename(vpath)) + r':(\d+):\d+', b):
                failed_lines.add(int(m.group(1)))
    if not failed_lines and 'verification results' not in p.stdout + p.stderr:
        return {'markers': len(marks), 'unreachable': [], 'wall_s': time.time() - t0, 'note': 'vacuity run did not verify (not counted): ' + p.stderr[-300:]}
    unreachable = [ln for ln in marks if ln not in failed_lines]
    return {'markers': len(marks), 'unreachable': unreachable, 'wall_s': time.time() - t0}


def _owner_matches(err, obname):
    fn = obname.split('/', 1)[1]
    last = fn.split('::')[-1]
    if err['owner'] is None:
        return False
    return last in err['text'] or last in err['owner'][1]


if __name__ == '__main__':
    import argparse
    ap = argparse.ArgumentParser()
    ap.add_argument('unit')
    ap.add_argument('--repo', default='/repo')
    ap.add_argument('--work', default='/tmp/vrun-dev')
    ap.add_argument('--expanded', default=None)
    ap.add_argument('--bless', action='store_true')
    ap.add_argument('--rlimit', type=float, default=30)
    a = ap.parse_args()
    r = run_unit(a.unit, a.repo, a.work, a.expanded, a.rlimit, a.bless)
    st = r.pop('stderr_tail', '')
    print(json.dumps(r, indent=1)[:6000])
    if r['status'] != 'ok':
        print(st)
