"""krun — run Kani harnesses against a scratch copy of /repo's working tree.

Only additions are made to the copy: one `#[cfg(kani)] mod verif_kani { include!(..) }` at the end of
main/src/lib.rs (so private items are visible), optional Kani contract attributes in front of named
functions, `[net] offline`, and for the release profile a `[profile.dev]` stanza.
"""
import json
import os
import re
import shutil
import subprocess
import sys
import time

HERE = os.path.dirname(os.path.abspath(__file__))
VERIF = os.path.dirname(HERE)
sys.path.insert(0, HERE)
from rsx import Src, ExtractError  # noqa: E402


def prepare(repo, scratch, groups, release=False, contracts=None, with_derive=False):
    """Copy repo to scratch/repo and inject harness modules.  Returns path of the copy."""
    dst = os.path.join(scratch, 'krepo_rel' if release else 'krepo')
    if os.path.exists(dst):
        shutil.rmtree(dst)
    subprocess.run(['rsync', '-a', '--exclude', 'target', '--exclude', '.git', repo.rstrip('/') + '/', dst + '/'], check=True)
    libp = os.path.join(dst, 'main/src/lib.rs')
    with open(libp, encoding='utf-8') as f:
        lib = f.read()
    inc = ''.join('    include!("%s");\n' % os.path.join(VERIF, 'kani', g + '.rs') for g in ['common'] + list(groups))
    lib = lib.replace('#![no_std]', '#![no_std]\n#![cfg_attr(kani, feature(stmt_expr_attributes, proc_macro_hygiene))]', 1)
    lib += '\n#[cfg(kani)]\n#[allow(missing_docs, unused, non_camel_case_types, non_snake_case)]\nmod verif_kani {\n    use super::*;\n' + inc + '}\n'
    with open(libp, 'w', encoding='utf-8') as f:
        f.write(lib)
    # Kani function contracts: {relpath: {fn_name: [attr lines]}}
    for rel, fns in (contracts or {}).items():
        p = os.path.join(dst, rel)
        s = Src(open(p, encoding='utf-8').read(), rel)
        inserts = []
        for name, attrs in fns.items():
            st, sig_end, bo, bc = s.find_fn(name)
            indent = re.match(r'[ \t]*', s.text[st:]).group(0)
            inserts.append((st, ''.join(indent + a + '\n' for a in attrs)))
        t = s.text
        for pos, txt in sorted(inserts, reverse=True):
            t = t[:pos] + txt + t[pos:]
        with open(p, 'w', encoding='utf-8') as f:
            f.write(t)
    os.makedirs(os.path.join(dst, '.cargo'), exist_ok=True)
    with open(os.path.join(dst, '.cargo/config.toml'), 'w') as f:
        f.write('[net]\noffline = true\n')
    if release:
        with open(os.path.join(dst, 'Cargo.toml'), 'a') as f:
            f.write('\n[profile.dev]\ndebug-assertions = false\noverflow-checks = false\n')
    return dst


RE_HARNESS = re.compile(r'Checking harness ([\w:]+)\.\.\.')


def run(copy, harnesses, jobs=8, timeout=3000, extra=None, target_dir=None, unwind=None, harness_timeout=600):
    """Run the listed harnesses (full paths or unique names). Returns dict name -> result."""
    env = dict(os.environ)
    env['CARGO_NET_OFFLINE'] = 'true'
    if target_dir:
        env['CARGO_TARGET_DIR'] = target_dir
    cmd = ['cargo', 'kani', '-p', 'pest_typed', '-Z', 'function-contracts', '-Z', 'stubbing', '-Z', 'loop-contracts',
           '--output-format', 'terse', '-j', str(jobs), '-Z', 'unstable-options', '--harness-timeout', '%ds' % harness_timeout]
    for h in harnesses:
        cmd += ['--harness', h]
    if unwind:
        cmd += ['--default-unwind', str(unwind)]
    cmd += list(extra or [])
    t0 = time.time()
    try:
        p = subprocess.run(cmd, cwd=os.path.join(copy, 'main'), env=env, capture_output=True, text=True, timeout=timeout)
        out = p.stdout + '\n' + p.stderr
        rc = p.returncode
    except subprocess.TimeoutExpired as e:
        out = ((e.stdout or b'').decode('utf-8', 'replace') if isinstance(e.stdout, bytes) else (e.stdout or '')) + '\nTIMEOUT'
        rc = -9
    wall = time.time() - t0
    results = {}
    # With -j the output is a sequence of "Thread N: <block>" segments; a segment is either
    # "Checking harness X..." or that thread's result block for the harness it announced last.
    segs = re.split(r'(?m)^Thread (\d+): ', out)
    blocks = {}  # harness -> text
    if len(segs) > 1:
        cur = {}
        for k in range(1, len(segs), 2):
            tid, body = segs[k], segs[k + 1]
            m = RE_HARNESS.match(body)
            if m:
                cur[tid] = m.group(1)
                rest = body[m.end():]
                if 'VERIFICATION' in rest:
                    blocks[cur[tid]] = blocks.get(cur[tid], '') + rest
            elif tid in cur:
                blocks[cur[tid]] = blocks.get(cur[tid], '') + body
    else:
        for part in re.split(r'(?=Checking harness )', out):
            m = RE_HARNESS.match(part)
            if m:
                blocks[m.group(1)] = part
    for full, part in blocks.items():
        short = full.split('::')[-1]
        status = 'undecided'
        if 'VERIFICATION:- SUCCESSFUL' in part:
            status = 'ok'
        elif 'VERIFICATION:- FAILED' in part:
            status = 'failed'
            if 'out of memory' in part or ('CBMC failed' in part and 'Failed Checks' not in part) or 'timed out' in part.lower():
                status = 'undecided'
        failed_checks = re.findall(r'Failed Checks: (.*)', part)
        unwind_fail = any('unwinding assertion' in c for c in failed_checks)
        mt = re.search(r'Verification Time: ([\d.]+)s', part)
        mc = re.search(r'\*\* (\d+) of (\d+) failed', part)
        ms = re.search(r'(\d+) of (\d+) cover properties satisfied', part)
        results[short] = {'harness': full, 'status': status, 'failed_checks': failed_checks[:8],
                          'unwind_fail': unwind_fail, 'time_s': float(mt.group(1)) if mt else None,
                          'checks': int(mc.group(2)) if mc else None,
                          'covers': (int(ms.group(1)), int(ms.group(2))) if ms else None,
                          'text': part[-3000:] if status != 'ok' else ''}
    for h in harnesses:
        short = h.split('::')[-1]
        if short not in results:
            results[short] = {'harness': h, 'status': 'undecided', 'failed_checks': [], 'unwind_fail': False,
                              'time_s': None, 'covers': None,
                              'text': 'no result for harness; rc=%s; tail: %s' % (rc, out[-2500:])}
    return results, wall, ' '.join(cmd), out


def playback(copy, harness, target_dir=None, timeout=1200):
    """Re-run one failing harness with concrete playback; return the generated unit test text (or None)."""
    env = dict(os.environ)
    env['CARGO_NET_OFFLINE'] = 'true'
    if target_dir:
        env['CARGO_TARGET_DIR'] = target_dir
    cmd = ['cargo', 'kani', '-p', 'pest_typed', '-Z', 'function-contracts', '-Z', 'stubbing', '-Z', 'loop-contracts', '-Z', 'concrete-playback',
           '--concrete-playback=print', '--harness', harness, '--output-format', 'terse']
    try:
        p = subprocess.run(cmd, cwd=os.path.join(copy, 'main'), env=env, capture_output=True, text=True, timeout=timeout)
    except subprocess.TimeoutExpired:
        return None
    out = p.stdout
    m = re.search(r'```\s*\n(.*?)```', out, re.S)
    if m:
        return m.group(1)
    m = re.search(r'(#\[test\]\s*fn kani_concrete_playback.*?\n\})', out, re.S)
    return m.group(1) if m else None


def native(copy, tests, timeout=3000):
    """Bounded native enumerations (labelled bounded stand-ins): copy /verif/native/<t>.rs into main/tests and run.
    tests: (file, testname, bound-text, tier[, env-dict]).  Each test prints
    `NB-RESULT name=<n> status=ok|fail|undecided cases=<N> key=<k> detail=<text>`.  A test with an env dict is
    run in --release (deeper bound)."""
    out_all = {}
    # a file name `derive:<f>` is placed in derive/tests (both pest_derive and pest_typed_derive available there)
    def place(f):
        crate, pkg, base = ('derive', 'pest_typed_derive', f[7:]) if f.startswith('derive:') else ('main', 'pest_typed', f)
        return crate, pkg, base
    for f in sorted(set(t[0] for t in tests)):
        crate, pkg, base = place(f)
        tdir = os.path.join(copy, crate, 'tests')
        os.makedirs(tdir, exist_ok=True)
        shutil.copy(os.path.join(VERIF, 'native', base + '.rs'), os.path.join(tdir, 'verif_' + base + '.rs'))
    t0 = time.time()
    groups = {}
    for t in tests:
        envd = t[4] if len(t) > 4 else {}
        groups.setdefault((t[0], tuple(sorted(envd.items()))), []).append(t)
    for (f, envt), ts in groups.items():
        env = dict(os.environ)
        env['CARGO_NET_OFFLINE'] = 'true'
        env.update(dict(envt))
        crate, pkg, base = place(f)
        cmd = ['cargo', 'test', '--offline', '-p', pkg, '--test', 'verif_' + base] + (['--release'] if envt else []) + ['--']
        cmd += [t[1].split('@')[0] for t in ts] + ['--exact', '--nocapture', '--test-threads', '8']
        out = ''
        for attempt in (1, 2):   # one retry when the run produced no result line at all (build killed under memory pressure, lock contention)
            try:
                p = subprocess.run(cmd, cwd=copy, env=env, capture_output=True, text=True, timeout=timeout)
                out = p.stdout + '\n' + p.stderr
            except subprocess.TimeoutExpired:
                out = 'TIMEOUT'
                break
            if 'NB-RESULT' in out:
                break
        shown = ' '.join('%s=%s' % kv for kv in envt) + (' ' if envt else '') + ' '.join(cmd)
        for m in re.finditer(r'NB-RESULT name=(\S+) status=(\S+) cases=(\d+) key=(.*?)(?: detail=(.*))?$', out, re.M):
            key = m.group(4).strip()
            det = (m.group(5) or '').strip()
            if m.group(5) is None and ' detail=' in key:
                key, det = key.split(' detail=', 1)
            for t in ts:
                if t[1].split('@')[0] == m.group(1):
                    out_all[t[1]] = {'status': m.group(2), 'cases': int(m.group(3)), 'key': key, 'detail': det, 'cmd': shown}
        for t in ts:
            if t[1] not in out_all:
                out_all[t[1]] = {'status': 'undecided', 'cases': 0, 'key': '-', 'detail': 'no NB-RESULT line; tail: ' + out[-1500:], 'cmd': shown}
    return out_all, time.time() - t0
