"""rsx — lexical extraction of Rust items from source text.

No parsing beyond what is needed to find items *by name* and copy their text byte for byte:
a scanner that knows strings, raw strings, char literals vs. lifetimes, line and block comments,
and bracket matching on top of it.  Anything the scanner does not recognise raises ExtractError,
which the drivers turn into exit 2 (undecided), never into a violation.
"""
import re


class ExtractError(Exception):
    pass


def code_mask(src):
    """Return a bytearray m with m[i]=1 where src[i] is code (not inside comment/string/char)."""
    n = len(src)
    m = bytearray(n)
    i = 0
    while i < n:
        c = src[i]
        if c == '/' and i + 1 < n and src[i + 1] == '/':
            j = src.find('\n', i)
            if j < 0:
                j = n
            i = j
            continue
        if c == '/' and i + 1 < n and src[i + 1] == '*':
            depth = 1
            j = i + 2
            while j < n and depth:
                if src.startswith('/*', j):
                    depth += 1
                    j += 2
                elif src.startswith('*/', j):
                    depth -= 1
                    j += 2
                else:
                    j += 1
            i = j
            continue
        if c == '"':
            j = i + 1
            while j < n and src[j] != '"':
                if src[j] == '\\':
                    j += 1
                j += 1
            i = j + 1
            continue
        if c == 'r' and i + 1 < n and src[i + 1] in '#"' and (i == 0 or not (src[i - 1].isalnum() or src[i - 1] == '_')):
            j = i + 1
            h = 0
            while j < n and src[j] == '#':
                h += 1
                j += 1
            if j < n and src[j] == '"':
                end = src.find('"' + '#' * h, j + 1)
                if end < 0:
                    raise ExtractError('unterminated raw string')
                i = end + 1 + h
                continue
        if c == "'":
            # char literal or lifetime
            if i + 2 < n and src[i + 1] == '\\':
                j = src.find("'", i + 2)
                if src[i + 2] == "'":
                    j = src.find("'", i + 3)
                i = j + 1
                continue
            if i + 2 < n and src[i + 2] == "'":
                i += 3
                continue
            # multi-byte char literal like '中' is still one python char, covered above.
            m[i] = 1
            i += 1
            continue
        m[i] = 1
        i += 1
    return m


PAIRS = {'{': '}', '(': ')', '[': ']'}


def match_close(src, mask, i):
    """src[i] is an opening bracket in code; return index of its matching close."""
    o = src[i]
    c = PAIRS[o]
    depth = 0
    n = len(src)
    j = i
    while j < n:
        if mask[j]:
            if src[j] == o:
                depth += 1
            elif src[j] == c:
                depth -= 1
                if depth == 0:
                    return j
        j += 1
    raise ExtractError('unbalanced %s at %d' % (o, i))


def find_code(src, mask, pat, start=0, end=None, regex=False):
    """All start offsets of pat (plain or compiled regex) whose first char is code."""
    end = len(src) if end is None else end
    out = []
    if regex:
        for mm in re.compile(pat).finditer(src, start, end):
            if mask[mm.start()]:
                out.append(mm)
        return out
    i = src.find(pat, start, end)
    while i >= 0:
        if mask[i]:
            out.append(i)
        i = src.find(pat, i + 1, end)
    return out


class Src:
    def __init__(self, text, label):
        self.text = text
        self.label = label
        self.mask = code_mask(text)

    def line_of(self, off):
        return self.text.count('\n', 0, off) + 1

    # --- item start: back up over attributes and doc comments directly above ------------------
    def _attr_start(self, off, lo=0):
        t = self.text
        ls = t.rfind('\n', lo, off) + 1
        if t[ls:off].strip() not in ('', 'pub', 'pub(crate)', 'unsafe', 'pub unsafe'):
            # item keyword is not first on its line (e.g. after `pub`): keep line start anyway
            pass
        start = ls
        while True:
            pe = start - 1
            if pe <= lo:
                break
            ps = t.rfind('\n', lo, pe) + 1
            line = t[ps:pe].strip()
            if line.startswith('#[') or line.startswith('///') or line.startswith('#![') and False:
                start = ps
                continue
            break
        return start

    def find_fn(self, name, lo=0, hi=None, nth=0):
        """(start, sig_end, body_open, body_close): start includes attributes; text[body_open]=='{'."""
        hi = len(self.text) if hi is None else hi
        ms = find_code(self.text, self.mask, r'\bfn\s+' + re.escape(name) + r'\b\s*[<(]', lo, hi, regex=True)
        if len(ms) <= nth:
            raise ExtractError('%s: fn %s (occurrence %d) not found' % (self.label, name, nth))
        m = ms[nth]
        # find body '{' : first code '{' at bracket depth 0 after the parameter list; or ';'
        i = m.end() - 1
        t = self.text
        # skip generics
        if t[i] == '<':
            depth = 0
            while i < hi:
                if self.mask[i]:
                    if t[i] == '<':
                        depth += 1
                    elif t[i] == '>' and t[i - 1] != '-':
                        depth -= 1
                        if depth == 0:
                            break
                i += 1
            i += 1
            while t[i] != '(' or not self.mask[i]:
                i += 1
        pclose = match_close(t, self.mask, i)
        j = pclose + 1
        while j < hi:
            if self.mask[j]:
                if t[j] == '{':
                    break
                if t[j] == ';':
                    start = self._attr_start(m.start(), lo)
                    return (start, j, None, j)
                if t[j] in '([':
                    j = match_close(t, self.mask, j)
            j += 1
        bclose = match_close(t, self.mask, j)
        start = self._attr_start(m.start(), lo)
        return (start, j, j, bclose)

    def find_block_item(self, regex_pat, lo=0, hi=None, nth=0):
        """Find an item introduced by regex (e.g. r'impl\b[^{;]*for\s+Option<T>') and ending in a {...} block.
        Returns (start, open, close)."""
        hi = len(self.text) if hi is None else hi
        ms = find_code(self.text, self.mask, regex_pat, lo, hi, regex=True)
        if len(ms) <= nth:
            raise ExtractError('%s: item /%s/ (occurrence %d) not found' % (self.label, regex_pat, nth))
        m = ms[nth]
        j = m.end()
        t = self.text
        while j < hi and not (self.mask[j] and t[j] == '{'):
            if self.mask[j] and t[j] == ';':
                start = self._attr_start(m.start(), lo)
                return (start, None, j)
            j += 1
        close = match_close(t, self.mask, j)
        start = self._attr_start(m.start(), lo)
        return (start, j, close)

    def find_impl(self, header_norm, lo=0, hi=None, nth=0):
        """Find `impl ... {` whose header, whitespace-normalised, contains header_norm."""
        hi = len(self.text) if hi is None else hi
        want = re.sub(r'\s+', '', header_norm)
        k = 0
        for m in find_code(self.text, self.mask, r'\bimpl\b', lo, hi, regex=True):
            j = m.end()
            t = self.text
            # header ends at first code '{' outside <...>/(...) — generics never contain '{' here
            while j < hi and not (self.mask[j] and t[j] == '{'):
                j += 1
            if j >= hi:
                continue
            header = re.sub(r'\s+', '', t[m.start():j])
            pos = header.find(want)
            while pos > 0 and (header[pos - 1].isalnum() or header[pos - 1] == '_'):
                pos = header.find(want, pos + 1)
            if pos >= 0:
                if k == nth:
                    close = match_close(t, self.mask, j)
                    return (self._attr_start(m.start(), lo), j, close)
                k += 1
        raise ExtractError('%s: impl containing `%s` (occurrence %d) not found' % (self.label, header_norm, nth))


def split_top_commas(s):
    """Split s at commas that are not nested in brackets (mask computed locally)."""
    mask = code_mask(s)
    parts = []
    depth = 0
    last = 0
    angle = 0
    for i, ch in enumerate(s):
        if not mask[i]:
            continue
        if ch in '([{':
            depth += 1
        elif ch in ')]}':
            depth -= 1
        elif ch == ',' and depth == 0:
            parts.append(s[last:i])
            last = i + 1
    parts.append(s[last:])
    return parts
