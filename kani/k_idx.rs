// k-idx — C06 index arithmetic on the real `parser_state::constrain_idxs`, full domain, loop-free.
mod k_idx {
    use crate::parser_state::constrain_idxs;

    // Specification taken from the statement of C06.
    fn spec_norm(i: i64, len: i64) -> Option<usize> {
        if i > len { None } else if i >= 0 { Some(i as usize) } else if len + i >= 0 { Some((len + i) as usize) } else { None }
    }

    /// complete: all i32 x Option<i32> x len <= i32::MAX; no panic, no overflow, result = spec.
    #[kani::proof]
    fn idx_constrain_full() {
        let start: i32 = kani::any();
        let end: Option<i32> = kani::any();
        let len: usize = kani::any();
        kani::assume(len <= i32::MAX as usize);
        let r = constrain_idxs(start, end, len);
        let a = spec_norm(start as i64, len as i64);
        let b = match end { None => Some(len), Some(e) => spec_norm(e as i64, len as i64) };
        match (a, b) {
            (Some(a), Some(b)) => {
                assert!(r == Some(a..b));
                assert!(a <= len && b <= len);
            }
            _ => assert!(r.is_none()),
        }
        kani::cover!(r.is_some() && start < 0);
        kani::cover!(r.is_none() && start >= 0);
        kani::cover!(matches!(&r, Some(x) if x.end < x.start));
    }

    /// Kani function contract on the real function (attributes injected in the scratch copy).
    #[kani::proof_for_contract(crate::parser_state::constrain_idxs)]
    fn idx_constrain_contract() {
        let start: i32 = kani::any();
        let end: Option<i32> = kani::any();
        let len: usize = kani::any();
        let _ = constrain_idxs(start, end, len);
    }
}
