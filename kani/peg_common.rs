// peg_common — grammars (types built from the real combinators) paired with their reference expressions
// (refpeg), and the comparison function.  Shared by the Kani harnesses (k_peg: symbolic input) and the native
// bounded enumeration (nb_peg: every string up to a longer bound).  Paths are written `crate::..`; the native
// test crate re-exports pest_typed at its root so the same text compiles in both places.
pub mod pegc {
    pub use super::refpeg::*;
    pub use crate::choices::{Choice2, Choice3};
    pub use crate::predefined_node::*;
    pub use crate::sequence::{Seq2, Seq3, Seq4};
    pub use crate::tracker::Tracker;
    pub use crate::{Input, Position, Span, Stack, StringArrayWrapper, StringWrapper, TypedNode};

    #[derive(Clone, Copy, Debug, Eq, Hash, Ord, PartialEq, PartialOrd)]
    pub enum Rule { EOI, X, Y, Z, WHITESPACE }

    macro_rules! lit {
        ($n:ident, $s:literal) => {
            #[derive(Clone, Debug, Hash, PartialEq, Eq)]
            pub struct $n;
            impl StringWrapper for $n { const CONTENT: &'static str = $s; }
        };
    }
    lit!(LA, "a");
    lit!(LB, "b");
    lit!(LSP, " ");
    lit!(LAB, "ab");
    lit!(LE, "é");
    lit!(LC, "c");
    lit!(LEB, "éb");
    #[derive(Clone, Debug, Hash, PartialEq, Eq)]
    pub struct NStar;
    impl StringArrayWrapper for NStar { const CONTENT: &'static [&'static str] = &["*/", "b"]; }
    pub type A = Str<LA>;
    pub type B = Str<LB>;
    /// the skip node the generator emits when only WHITESPACE = { " " } is defined
    pub type WS = AtomicRepeat<Str<LSP>>;
    pub type S1<T> = Skipped<T, WS, 1>;
    pub type S0<T> = Skipped<T, WS, 0>;
    pub type RWS = RRep<RStr<LSP>, RNoSkip, 0, 0, { usize::MAX }>;

    /// parse == check == reference on sub-input s[a..b] given as Span / as a fresh copy; Err(reason) on disagreement
    pub fn cmp_at<'i, G: TypedNode<'i, Rule>, X: RN, I: Input<'i>>(input: I, s: &'i str, start: usize, end: usize) -> Result<Option<usize>, &'static str> {
        let mut st1 = Stack::new();
        let mut tr1 = Tracker::<Rule>::new(input);
        let p = G::try_parse_partial_with(input, &mut st1, &mut tr1);
        let mut st2 = Stack::new();
        let mut tr2 = Tracker::<Rule>::new(input);
        let c = G::try_check_partial_with(input, &mut st2, &mut tr2);
        let po = p.map(|x| x.0.byte_offset());
        let co = c.map(|x| x.byte_offset());
        if po != co { return Err("C03: parse and check disagree on verdict/offset"); }
        let cx = Cx { s, start, end };
        let r = X::ev(&cx, start, Stk::new());
        if r.map(|x| x.0) != co { return Err("C01: result differs from the PEG denotation"); }
        if let Some((_, rs)) = r {
            if st1.len() != rs.n || st2.len() != rs.n { return Err("C05/C06: stack depth after the match differs from the denotation"); }
        }
        if let Some(o) = co { if !(s.is_char_boundary(o) && start <= o && o <= end) { return Err("C09: offset out of range or off a char boundary"); } }
        Ok(co)
    }
    pub fn cmp<'i, G: TypedNode<'i, Rule>, X: RN>(s: &'i str) -> Result<Option<usize>, &'static str> {
        cmp_at::<G, X, _>(Position::from_start(s), s, 0, s.len())
    }

    // ---- the grammars -------------------------------------------------------------------------------------------
    /// a ~ b ~ a (implicit skip)
    pub type GSeq3 = Seq3<S1<A>, S1<B>, S1<A>>;
    pub type XSeq3 = RSeq3<RStr<LA>, RStr<LB>, RStr<LA>, RWS, 1>;
    /// @{ a ~ b }
    pub type GSeq2A = Seq2<S0<A>, S0<B>>;
    pub type XSeq2A = RSeq2<RStr<LA>, RStr<LB>, RWS, 0>;
    /// a{1,2} with skip
    pub type GRep12 = RepMinMax<A, WS, 1, 1, 2>;
    pub type XRep12 = RRep<RStr<LA>, RWS, 1, 1, 2>;
    /// (a | b ~ a)+
    pub type GRepCh = RepMin<Choice2<A, Seq2<S1<B>, S1<A>>>, WS, 1, 1>;
    pub type XRepCh = RRep<RChoice2<RStr<LA>, RSeq2<RStr<LB>, RStr<LA>, RWS, 1>>, RWS, 1, 1, { usize::MAX }>;
    /// PUSH(a|b) ~ (POP ~ b | PEEK ~ DROP)
    pub type GPushPop<'i> = Seq2<S0<Push<Choice2<A, B>>>, S0<Choice2<Seq2<S0<POP<'i>>, S0<B>>, Seq2<S0<PEEK<'i>>, S0<DROP>>>>>;
    pub type XPushPop = RSeq2<RPush<RChoice2<RStr<LA>, RStr<LB>>>, RChoice2<RSeq2<RPop, RStr<LB>, RNoSkip, 0>, RSeq2<RPeek, RDrop, RNoSkip, 0>>, RNoSkip, 0>;
    /// PUSH(a){0,2} ~ &POP ~ !b ~ PEEK_ALL
    pub type GPred<'i> = Seq4<S0<RepMinMax<Push<A>, WS, 0, 0, 2>>, S0<Positive<POP<'i>>>, S0<Negative<B>>, S0<PEEK_ALL<'i>>>;
    pub type XPred = RSeq4<RRep<RPush<RStr<LA>>, RNoSkip, 0, 0, 2>, RPos<RPop>, RNeg<RStr<LB>>, RPeekAll, RNoSkip, 0>;
    /// D1: PUSH(a) ~ ((POP? ~ b) | PEEK)   — optional POP inside a failing alternative (nested snapshots)
    pub type GD1<'i> = Seq2<S0<Push<A>>, S0<Choice2<Seq2<S0<Option<POP<'i>>>, S0<B>>, PEEK<'i>>>>;
    pub type XD1 = RSeq2<RPush<RStr<LA>>, RChoice2<RSeq2<ROpt<RPop>, RStr<LB>, RNoSkip, 0>, RPeek>, RNoSkip, 0>;
    /// PUSH(a|b)* ~ PEEK[0..1] ~ PEEK[-1..] ~ POP_ALL
    pub type GSlice<'i> = Seq4<S0<RepMinMax<Push<Choice2<A, B>>, WS, 0, 0, 3>>, S0<PeekSlice2<0, 1>>, S0<PeekSlice1<-1>>, S0<POP_ALL<'i>>>;
    pub type XSlice = RSeq4<RRep<RPush<RChoice2<RStr<LA>, RStr<LB>>>, RNoSkip, 0, 0, 3>, RPeekSlice2<0, 1>, RPeekSlice1<-1>, RPopAll, RNoSkip, 0>;
    /// leaves: ^"ab" ~ ('a'..'b' | ANY) ~ NEWLINE? ~ SkipChar<1>? ~ skip-until(*/ | b)
    pub type GLeaf<'i> = Seq4<S0<Insens<'i, LAB>>, S0<Choice2<CharRange<'a', 'b'>, ANY>>, S0<Option<NEWLINE>>, S0<Skip<'i, NStar>>>;
    pub type XLeaf = RSeq4<RInsens<LAB>, RChoice2<RRange<'a', 'b'>, RAny>, ROpt<RNewline>, RSkipUntil<NStar>, RNoSkip, 0>;
    /// a failing alternative that pops and pushes the same number of entries: PUSH(a) ~ ((DROP ~ PUSH(b) ~ "c") | "b") ~ POP
    pub type GBal<'i> = Seq3<S0<Push<A>>, S0<Choice2<Seq3<S0<DROP>, S0<Push<B>>, S0<Str<LC>>>, B>>, S0<POP<'i>>>;
    pub type XBal = RSeq3<RPush<RStr<LA>>, RChoice2<RSeq3<RDrop, RPush<RStr<LB>>, RStr<LC>, RNoSkip, 0>, RStr<LB>>, RPop, RNoSkip, 0>;
    /// an optional that pushes and then fails: PUSH(a) ~ (PUSH(a) ~ b)? ~ a? ~ POP
    pub type GOptPush<'i> = Seq4<S0<Push<A>>, S0<Option<Seq2<S0<Push<A>>, S0<B>>>>, S0<Option<A>>, S0<POP<'i>>>;
    pub type XOptPush = RSeq4<RPush<RStr<LA>>, ROpt<RSeq2<RPush<RStr<LA>>, RStr<LB>, RNoSkip, 0>>, ROpt<RStr<LA>>, RPop, RNoSkip, 0>;
    /// bounded repetition whose iteration pushes before it can fail: (PUSH(a) ~ b){1,3} ~ PEEK_ALL
    pub type GRepPush<'i> = Seq2<S0<RepMinMax<Seq2<S0<Push<A>>, S0<B>>, WS, 0, 1, 3>>, S0<PEEK_ALL<'i>>>;
    pub type XRepPush = RSeq2<RRep<RSeq2<RPush<RStr<LA>>, RStr<LB>, RNoSkip, 0>, RNoSkip, 0, 1, 3>, RPeekAll, RNoSkip, 0>;
    /// unbounded repetition whose iteration drops and pushes before failing: PUSH(a) ~ (DROP ~ PUSH(b) ~ "c")* ~ b? ~ POP
    pub type GRepBal<'i> = Seq4<S0<Push<A>>, S0<RepMin<Seq3<S0<DROP>, S0<Push<B>>, S0<Str<LC>>>, WS, 0, 0>>, S0<Option<B>>, S0<POP<'i>>>;
    pub type XRepBal = RSeq4<RPush<RStr<LA>>, RRep<RSeq3<RDrop, RPush<RStr<LB>>, RStr<LC>, RNoSkip, 0>, RNoSkip, 0, 0, { usize::MAX }>, ROpt<RStr<LB>>, RPop, RNoSkip, 0>;
    /// predicates whose operand mutates the stack: PUSH(a) ~ &(POP ~ PUSH(b)) ~ !(DROP ~ "c") ~ POP
    pub type GPredMut<'i> = Seq4<S0<Push<A>>, S0<Positive<Seq2<S0<POP<'i>>, S0<Push<B>>>>>, S0<Negative<Seq2<S0<DROP>, S0<Str<LC>>>>>, S0<POP<'i>>>;
    pub type XPredMut = RSeq4<RPush<RStr<LA>>, RPos<RSeq2<RPop, RPush<RStr<LB>>, RNoSkip, 0>>, RNeg<RSeq2<RDrop, RStr<LC>, RNoSkip, 0>>, RPop, RNoSkip, 0>;
    /// a repetition that fails BELOW its minimum after its iterations (and the attempt around it) changed the stack, inside a
    /// choice arm that must be undone as a whole: ((PUSH(a) ~ (PUSH(b) ~ "c"){2,}) | a) ~ PEEK_ALL   and the same with {2,3}
    pub type GRepMinFail<'i> = Seq2<S0<Choice2<Seq2<S0<Push<A>>, S0<RepMin<Seq2<S0<Push<B>>, S0<Str<LC>>>, WS, 0, 2>>>, A>>, S0<PEEK_ALL<'i>>>;
    pub type XRepMinFail = RSeq2<RChoice2<RSeq2<RPush<RStr<LA>>, RRep<RSeq2<RPush<RStr<LB>>, RStr<LC>, RNoSkip, 0>, RNoSkip, 0, 2, { usize::MAX }>, RNoSkip, 0>, RStr<LA>>, RPeekAll, RNoSkip, 0>;
    pub type GRepMMFail<'i> = Seq2<S0<Choice2<Seq2<S0<Push<A>>, S0<RepMinMax<Seq2<S0<Push<B>>, S0<Str<LC>>>, WS, 0, 2, 3>>>, A>>, S0<PEEK_ALL<'i>>>;
    pub type XRepMMFail = RSeq2<RChoice2<RSeq2<RPush<RStr<LA>>, RRep<RSeq2<RPush<RStr<LB>>, RStr<LC>, RNoSkip, 0>, RNoSkip, 0, 2, 3>, RNoSkip, 0>, RStr<LA>>, RPeekAll, RNoSkip, 0>;
    /// counted repetition of an element that consumes NO input (progress is in the stack only): PUSH(a) ~ PUSH(a)? ~ DROP{2} ~ b ~ PEEK_ALL
    /// and of an element that may match the empty string: (a*){2,3} ~ PUSH(b)? ~ DROP{1,2}
    pub type GRepNoProgress<'i> = Seq4<S0<Push<A>>, S0<Option<Push<A>>>, S0<RepMinMax<DROP, WS, 0, 2, 2>>, S0<Seq2<S0<B>, S0<PEEK_ALL<'i>>>>>;
    pub type XRepNoProgress = RSeq4<RPush<RStr<LA>>, ROpt<RPush<RStr<LA>>>, RRep<RDrop, RNoSkip, 0, 2, 2>, RSeq2<RStr<LB>, RPeekAll, RNoSkip, 0>, RNoSkip, 0>;
    pub type GRepNullable<'i> = Seq3<S0<RepMinMax<RepMin<A, WS, 0, 0>, WS, 0, 2, 3>>, S0<Option<Push<B>>>, S0<RepMinMax<DROP, WS, 0, 1, 2>>>;
    pub type XRepNullable = RSeq3<RRep<RRep<RStr<LA>, RNoSkip, 0, 0, { usize::MAX }>, RNoSkip, 0, 2, 3>, ROpt<RPush<RStr<LB>>>, RRep<RDrop, RNoSkip, 0, 1, 2>, RNoSkip, 0>;
    /// a SKIP rule that uses the stack and can fail after changing it (the skip node is AtomicRepeat of it, as the generator emits
    /// when only one of WHITESPACE / COMMENT is defined): skip = (PUSH(b) ~ "c")*;  PUSH(a) ~skip~ a ~skip~ PEEK_ALL
    pub type WSP = AtomicRepeat<Seq2<Skipped<Push<B>, WS, 0>, Skipped<Str<LC>, WS, 0>>>;
    pub type SP1<T> = Skipped<T, WSP, 1>;
    pub type RWSP = RRep<RSeq2<RPush<RStr<LB>>, RStr<LC>, RNoSkip, 0>, RNoSkip, 0, 0, { usize::MAX }>;
    pub type GSkipPush<'i> = Seq3<SP1<Push<A>>, SP1<A>, SP1<PEEK_ALL<'i>>>;
    pub type XSkipPush = RSeq3<RPush<RStr<LA>>, RStr<LA>, RPeekAll, RWSP, 1>;
    /// a BOUNDED repetition used as the skip node (NeverFailedTypedNode impl of RepeatMinMax<_, 0, MAX>): at most one blank is
    /// skipped between elements: a ~ b ~ a with skip = " "{0,1}
    pub type WSB = RepeatMinMax<Skipped<Str<LSP>, WS, 0>, 0, 1>;
    pub type SB1<T> = Skipped<T, WSB, 1>;
    pub type RWSB = RRep<RStr<LSP>, RNoSkip, 0, 0, 1>;
    pub type GRepAsSkip = Seq3<SB1<A>, SB1<B>, SB1<A>>;
    pub type XRepAsSkip = RSeq3<RStr<LA>, RStr<LB>, RStr<LA>, RWSB, 1>;
    /// choices whose alternatives render alike (string literals): which alternative matched must be visible in ==, hash and Debug
    pub type GChoiceLit = Seq2<S0<Choice2<A, B>>, S0<Choice3<A, B, Str<LC>>>>;
    /// nested repetition with optional and SOI/EOI: SOI ~ (a{1,2} ~ b?)* ~ EOI (skips between everything)
    pub type GNest = Seq3<S1<SOI>, S1<RepMin<Seq2<S1<RepMinMax<A, WS, 1, 1, 2>>, S1<Option<B>>>, WS, 1, 0>>, S1<EOI>>;
    pub type XNest = RSeq3<RSoi, RRep<RSeq2<RRep<RStr<LA>, RWS, 1, 1, 2>, ROpt<RStr<LB>>, RWS, 1>, RWS, 1, 0, { usize::MAX }>, REoi, RWS, 1>;
}
