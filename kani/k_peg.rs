// k-peg — Kani bounded stand-ins for what Verus cannot reach: the *parse paths* of sequences and repetitions
// (core::array::from_fn with FnMut closures), with the tracker present.  Grammars and comparison: peg_common.
// Symbolic input of at most L characters over a stated alphabet; unwinding assertions on (complete for that L).
mod k_peg {
    use super::pegc::*;
    use super::SymStr;
    const AL: [&str; 3] = ["a", "b", " "];

    #[kani::proof]
    #[kani::unwind(7)]
    fn peg_seq3_skip() {
        let s = SymStr::<5>::any(&AL, 5);
        let r = cmp::<GSeq3, XSeq3>(s.as_str());
        assert!(r.is_ok());
        kani::cover!(r == Ok(Some(5)));
        kani::cover!(r == Ok(None));
    }
    #[kani::proof]
    #[kani::unwind(6)]
    fn peg_seq2_atomic() {
        let s = SymStr::<4>::any(&AL, 4);
        let r = cmp::<GSeq2A, XSeq2A>(s.as_str());
        assert!(r.is_ok());
        kani::cover!(r == Ok(Some(2)));
        kani::cover!(r == Ok(None));
    }
    #[kani::proof]
    #[kani::unwind(7)]
    fn peg_rep_1_2_skip() {
        let s = SymStr::<5>::any(&AL, 5);
        let r = cmp::<GRep12, XRep12>(s.as_str());
        assert!(r.is_ok());
        kani::cover!(r == Ok(Some(3)));
        kani::cover!(r == Ok(Some(1)));
        kani::cover!(r == Ok(None));
    }
    #[kani::proof]
    #[kani::unwind(5)]
    fn peg_rep_choice_seq() {
        let s = SymStr::<3>::any(&AL, 3);
        let r = cmp::<GRepCh, XRepCh>(s.as_str());
        assert!(r.is_ok());
        kani::cover!(r == Ok(Some(3)));
        kani::cover!(r == Ok(None));
    }
    #[kani::proof]
    #[kani::unwind(5)]
    fn peg_push_pop_choice() {
        let s = SymStr::<3>::any(&["a", "b"], 3);
        let r = cmp::<GPushPop<'_>, XPushPop>(s.as_str());
        assert!(r.is_ok());
        kani::cover!(r == Ok(Some(3)));
        kani::cover!(r == Ok(None));
    }
}
