// k-peg — bounded stand-ins for what Verus cannot reach: the *parse paths* of sequences and repetitions
// (core::array::from_fn with FnMut closures), the _ALL / slice stack nodes, and the tracker-carrying code.
// Concrete small grammars built from the real combinators; symbolic input of at most L characters over a
// stated alphabet; unwinding assertions on.  Oracle: refpeg (the PEG denotation in executable form).
// For each grammar: parse == check == refpeg on (verdict, consumed offset, stack depth).
mod k_peg {
    use super::refpeg::{eval, Cx, Stk, E, INF};
    use super::SymStr;
    use crate::choices::{Choice2, Choice3};
    use crate::predefined_node::*;
    use crate::sequence::{Seq2, Seq3};
    use crate::tracker::Tracker;
    use crate::{Input, Position, Span, Stack, StringWrapper, TypedNode};

    #[derive(Clone, Copy, Debug, Eq, Hash, Ord, PartialEq, PartialOrd)]
    pub enum Rule { EOI, X }

    macro_rules! lit {
        ($n:ident, $s:literal) => {
            #[derive(Clone, Debug, Hash, PartialEq, Eq)]
            pub struct $n;
            impl StringWrapper for $n { const CONTENT: &'static str = $s; }
        };
    }
    lit!(LA, "a");
    lit!(LB, "b");
    lit!(LSP, " ");
    lit!(LAB, "ab");
    type A = Str<LA>;
    type B = Str<LB>;
    type AB = Str<LAB>;
    /// the skip node the generator emits when only WHITESPACE = { " " } is defined
    type WS = AtomicRepeat<Str<LSP>>;
    type S1<T> = Skipped<T, WS, 1>;
    type S0<T> = Skipped<T, WS, 0>;
    static E_WS: E = E::Rep(&E::Str(" "), 0, INF, 0);

    /// parse == check == reference, for grammar G / expression `e`, on sub-input s[..]
    fn cmp<'i, G: TypedNode<'i, Rule>>(s: &'i str, e: &E, skip: Option<&'static E>) -> Option<usize> {
        let input = Position::from_start(s);
        let mut st1 = Stack::new();
        let mut tr1 = Tracker::<Rule>::new(input);
        let p = G::try_parse_partial_with(input, &mut st1, &mut tr1);
        let mut st2 = Stack::new();
        let mut tr2 = Tracker::<Rule>::new(input);
        let c = G::try_check_partial_with(input, &mut st2, &mut tr2);
        let po = p.map(|x| x.0.byte_offset());
        let co = c.map(|x| x.byte_offset());
        assert!(po == co);                       // C03: same verdict, same offset
        let cx = Cx { s, start: 0, end: s.len(), skip };
        let r = eval(e, &cx, 0, Stk::new());
        assert!(r.map(|x| x.0) == co);           // C01: the PEG denotation
        if let Some((_, rs)) = r {
            assert!(st1.len() == rs.n && st2.len() == rs.n);
        }
        if let Some(o) = co { assert!(s.is_char_boundary(o) && o <= s.len()); }   // C09
        co
    }

    const AL: [&str; 3] = ["a", "b", " "];

    // ---- sequence with implicit skip: a ~ b ~ a ---------------------------------------------------------------
    static E_SEQ3: E = E::Seq(&[E::Str("a"), E::Str("b"), E::Str("a")], 1);
    #[kani::proof]
    #[kani::unwind(7)]
    fn peg_seq3_skip() {
        let s = SymStr::<5>::any(&AL, 5);
        let r = cmp::<Seq3<S1<A>, S1<B>, S1<A>>>(s.as_str(), &E_SEQ3, Some(&E_WS));
        kani::cover!(r == Some(5));
        kani::cover!(r.is_none());
    }
    // ---- atomic sequence: no skip ----------------------------------------------------------------------------------
    static E_SEQ2A: E = E::Seq(&[E::Str("a"), E::Str("b")], 0);
    #[kani::proof]
    #[kani::unwind(6)]
    fn peg_seq2_atomic() {
        let s = SymStr::<4>::any(&AL, 4);
        let r = cmp::<Seq2<S0<A>, S0<B>>>(s.as_str(), &E_SEQ2A, Some(&E_WS));
        kani::cover!(r == Some(2));
        kani::cover!(r.is_none());
    }
    // ---- repetition with bounds and skip: a{1,2} -----------------------------------------------------------------
    static E_REP12: E = E::Rep(&E::Str("a"), 1, 2, 1);
    #[kani::proof]
    #[kani::unwind(7)]
    fn peg_rep_1_2_skip() {
        let s = SymStr::<5>::any(&AL, 5);
        let r = cmp::<RepMinMax<A, WS, 1, 1, 2>>(s.as_str(), &E_REP12, Some(&E_WS));
        kani::cover!(r == Some(3));
        kani::cover!(r == Some(1));
        kani::cover!(r.is_none());
    }
    // ---- unbounded repetition of a choice containing a sequence: (a | b ~ a)+ ---------------------------------------
    static E_REPCH: E = E::Rep(&E::Choice(&[E::Str("a"), E::Seq(&[E::Str("b"), E::Str("a")], 1)]), 1, INF, 1);
    #[kani::proof]
    #[kani::unwind(7)]
    fn peg_rep_choice_seq() {
        let s = SymStr::<4>::any(&AL, 4);
        let r = cmp::<RepMin<Choice2<A, Seq2<S1<B>, S1<A>>>, WS, 1, 1>>(s.as_str(), &E_REPCH, Some(&E_WS));
        kani::cover!(r == Some(4));
        kani::cover!(r.is_none());
    }
    // ---- stack: PUSH(a|b) ~ (POP | PEEK ~ DROP): stack ops inside choice -----------------------------------------------
    static E_PUSHPOP: E = E::Seq(&[E::Push(&E::Choice(&[E::Str("a"), E::Str("b")])), E::Choice(&[E::Seq(&[E::Pop, E::Str("b")], 0), E::Seq(&[E::Peek, E::Drop], 0)])], 0);
    #[kani::proof]
    #[kani::unwind(6)]
    fn peg_push_pop_choice() {
        let s = SymStr::<4>::any(&["a", "b"], 4);
        let r = cmp::<Seq2<S0<Push<Choice2<A, B>>>, S0<Choice2<Seq2<S0<POP<'_>>, S0<B>>, Seq2<S0<PEEK<'_>>, S0<DROP>>>>>>(s.as_str(), &E_PUSHPOP, None);
        kani::cover!(r == Some(3));
        kani::cover!(r == Some(2));
        kani::cover!(r.is_none());
    }
    // ---- predicates around stack ops and repetition of PUSH: PUSH(a)* ~ &(POP) ~ !b ~ PEEK_ALL -----------------------------
    static E_PRED: E = E::Seq(&[E::Rep(&E::Push(&E::Str("a")), 0, 2, 0), E::Pos(&E::Pop), E::Neg(&E::Str("b")), E::PeekAll], 0);
    #[kani::proof]
    #[kani::unwind(7)]
    fn peg_pred_stack_rep() {
        let s = SymStr::<5>::any(&["a", "b"], 5);
        type G<'i> = crate::sequence::Seq4<S0<RepMinMax<Push<A>, WS, 0, 0, 2>>, S0<Positive<POP<'i>>>, S0<Negative<B>>, S0<PEEK_ALL<'i>>>;
        let r = cmp::<G<'_>>(s.as_str(), &E_PRED, None);
        kani::cover!(r == Some(4));
        kani::cover!(r.is_none());
    }
}
