// Shared helpers for the Kani harness modules (included into `mod verif_kani` of the scratch copy).
// Symbolic UTF-8 strings: each character is chosen by kani::any() from a small table, so every
// generated string is valid UTF-8 by construction (the only `unsafe` is from_utf8_unchecked on it).
pub struct SymStr<const N: usize> {
    pub buf: [u8; N],
    pub len: usize,
    pub nchars: usize,
}
impl<const N: usize> SymStr<N> {
    /// At most `max_chars` characters drawn from `alphabet` (each entry one or more bytes of valid UTF-8).
    pub fn any(alphabet: &[&'static str], max_chars: usize) -> Self {
        let mut buf = [0u8; N];
        let mut len = 0usize;
        let n: usize = kani::any();
        kani::assume(n <= max_chars);
        let mut k = 0;
        while k < max_chars {
            if k < n {
                let c: usize = kani::any();
                kani::assume(c < alphabet.len());
                let s = alphabet[c].as_bytes();
                let mut j = 0;
                while j < s.len() {
                    buf[len] = s[j];
                    len += 1;
                    j += 1;
                }
            }
            k += 1;
        }
        SymStr { buf, len, nchars: n }
    }
    pub fn as_str(&self) -> &str {
        unsafe { core::str::from_utf8_unchecked(&self.buf[..self.len]) }
    }
}
/// A symbolic char-boundary offset of `s` (including 0 and len).
pub fn any_boundary(s: &str) -> usize {
    let a: usize = kani::any();
    kani::assume(a <= s.len());
    kani::assume(s.is_char_boundary(a));
    a
}
