mod k_probe {
    use super::SymStr;
    use crate::predefined_node::*;
    use crate::sequence::Seq2;
    use crate::tracker::Tracker;
    use crate::{Input, Position, Stack, StringWrapper, TypedNode};
    #[derive(Clone, Copy, Debug, Eq, Hash, Ord, PartialEq, PartialOrd)]
    pub enum Rule { EOI, X }
    macro_rules! lit { ($n:ident, $s:literal) => { #[derive(Clone, Debug, Hash, PartialEq, Eq)] pub struct $n; impl StringWrapper for $n { const CONTENT: &'static str = $s; } }; }
    lit!(LA, "a"); lit!(LB, "b"); lit!(LSP, " ");
    type WS = AtomicRepeat<Str<LSP>>;
    type S1<T> = Skipped<T, WS, 1>;
    #[kani::proof]
    #[kani::unwind(6)]
    fn probe_seq2() {
        let s = SymStr::<4>::any(&["a", "b", " "], 4);
        let s = s.as_str();
        let input = Position::from_start(s);
        let mut st1 = Stack::new();
        let mut tr1 = Tracker::<Rule>::new(input);
        let p = <Seq2<S1<Str<LA>>, S1<Str<LB>>> as TypedNode<Rule>>::try_parse_partial_with(input, &mut st1, &mut tr1);
        let mut st2 = Stack::new();
        let mut tr2 = Tracker::<Rule>::new(input);
        let c = <Seq2<S1<Str<LA>>, S1<Str<LB>>> as TypedNode<Rule>>::try_check_partial_with(input, &mut st2, &mut tr2);
        assert!(p.map(|x| x.0.byte_offset()) == c.map(|x| x.byte_offset()));
    }
}
