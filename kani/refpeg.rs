// refpeg — reference PEG combinators = the denotation `sem` of DESIGN.md §4 in executable form.
// Immutable stack (a Copy array passed by value), full backtracking, empty-stack / out-of-range operations
// fail.  Written from the property statements (C01, C05, C06, C07, C19), not from the code under test.
// The expression is a *type* (static dispatch, no recursion in the call graph: CBMC unwinds recursion per call
// site, which made a recursive interpreter over an expression enum intractable).
pub mod refpeg {
    use core::marker::PhantomData;
    use crate::{StringArrayWrapper, StringWrapper};

    pub const STK: usize = 4;
    #[derive(Clone, Copy, PartialEq, Eq, Debug)]
    pub struct Stk {
        pub s: [(usize, usize); STK],
        pub n: usize,
    }
    impl Stk {
        pub const fn new() -> Self { Stk { s: [(0, 0); STK], n: 0 } }
        pub fn push(mut self, a: usize, b: usize) -> Option<Self> {
            if self.n >= STK { return None; }
            self.s[self.n] = (a, b);
            self.n += 1;
            Some(self)
        }
        pub fn pop(mut self) -> Option<(Self, (usize, usize))> {
            if self.n == 0 { return None; }
            self.n -= 1;
            Some((self, self.s[self.n]))
        }
    }
    /// the input is `s[start..end]`
    pub struct Cx<'a> {
        pub s: &'a str,
        pub start: usize,
        pub end: usize,
    }
    pub type R = Option<(usize, Stk)>;
    /// a PEG expression
    pub trait RN { fn ev(cx: &Cx<'_>, pos: usize, st: Stk) -> R; }
    /// an expression that cannot fail (the implicit skip)
    pub trait RNF { fn evn(cx: &Cx<'_>, pos: usize, st: Stk) -> (usize, Stk); }

    pub fn starts(cx: &Cx<'_>, pos: usize, lit: &[u8]) -> bool {
        let b = cx.s.as_bytes();
        if pos + lit.len() > cx.end { return false; }
        let mut i = 0;
        while i < lit.len() {
            if b[pos + i] != lit[i] { return false; }
            i += 1;
        }
        true
    }
    fn lower(x: u8) -> u8 { if x >= b'A' && x <= b'Z' { x + 32 } else { x } }
    /// byte length of the scalar value starting at pos (from its leading byte)
    fn char_len_at(cx: &Cx<'_>, pos: usize) -> Option<usize> {
        if pos >= cx.end { return None; }
        let b = cx.s.as_bytes()[pos];
        Some(if b < 0x80 { 1 } else if b < 0xE0 { 2 } else if b < 0xF0 { 3 } else { 4 })
    }
    fn norm(i: i32, len: usize) -> Option<usize> {
        let (i, l) = (i as i64, len as i64);
        if i > l { None } else if i >= 0 { Some(i as usize) } else if l + i >= 0 { Some((l + i) as usize) } else { None }
    }
    fn skip_k<SK: RNF>(cx: &Cx<'_>, k: usize, mut pos: usize, mut st: Stk) -> (usize, Stk) {
        let mut i = 0;
        while i < k { let r = SK::evn(cx, pos, st); pos = r.0; st = r.1; i += 1; }
        (pos, st)
    }

    pub struct RStr<L>(PhantomData<L>);
    impl<L: StringWrapper> RN for RStr<L> {
        fn ev(cx: &Cx<'_>, pos: usize, st: Stk) -> R { if starts(cx, pos, L::CONTENT.as_bytes()) { Some((pos + L::CONTENT.len(), st)) } else { None } }
    }
    pub struct RInsens<L>(PhantomData<L>);
    impl<L: StringWrapper> RN for RInsens<L> {
        fn ev(cx: &Cx<'_>, pos: usize, st: Stk) -> R {
            let b = cx.s.as_bytes();
            let lb = L::CONTENT.as_bytes();
            if pos + lb.len() > cx.end || !cx.s.is_char_boundary(pos + lb.len()) { return None; }
            let mut i = 0;
            while i < lb.len() { if lower(b[pos + i]) != lower(lb[i]) { return None; } i += 1; }
            Some((pos + lb.len(), st))
        }
    }
    pub struct RRange<const LO: char, const HI: char>;
    impl<const LO: char, const HI: char> RN for RRange<LO, HI> {
        fn ev(cx: &Cx<'_>, pos: usize, st: Stk) -> R {
            let n = char_len_at(cx, pos)?;
            let c = cx.s[pos..pos + n].chars().next()?;
            if LO <= c && c <= HI { Some((pos + n, st)) } else { None }
        }
    }
    pub struct RAny;
    impl RN for RAny { fn ev(cx: &Cx<'_>, pos: usize, st: Stk) -> R { char_len_at(cx, pos).map(|n| (pos + n, st)) } }
    pub struct RSoi;
    impl RN for RSoi { fn ev(cx: &Cx<'_>, pos: usize, st: Stk) -> R { if pos == cx.start { Some((pos, st)) } else { None } } }
    pub struct REoi;
    impl RN for REoi { fn ev(cx: &Cx<'_>, pos: usize, st: Stk) -> R { if pos == cx.end { Some((pos, st)) } else { None } } }
    pub struct RNewline;
    impl RN for RNewline {
        fn ev(cx: &Cx<'_>, pos: usize, st: Stk) -> R {
            if starts(cx, pos, b"\r\n") { Some((pos + 2, st)) } else if starts(cx, pos, b"\n") { Some((pos + 1, st)) } else if starts(cx, pos, b"\r") { Some((pos + 1, st)) } else { None }
        }
    }
    pub struct RSkipChar<const N: usize>;
    impl<const N: usize> RN for RSkipChar<N> {
        fn ev(cx: &Cx<'_>, pos: usize, st: Stk) -> R {
            let mut p = pos;
            let mut i = 0;
            while i < N { p += char_len_at(cx, p)?; i += 1; }
            Some((p, st))
        }
    }
    /// least boundary offset at which a needle is a prefix of the remaining *sub-input*, else its end; never fails
    pub struct RSkipUntil<W>(PhantomData<W>);
    impl<W: StringArrayWrapper> RN for RSkipUntil<W> {
        fn ev(cx: &Cx<'_>, pos: usize, st: Stk) -> R {
            let mut p = pos;
            while p < cx.end {
                if cx.s.is_char_boundary(p) {
                    let mut j = 0;
                    while j < W::CONTENT.len() { if starts(cx, p, W::CONTENT[j].as_bytes()) { return Some((p, st)); } j += 1; }
                }
                p += 1;
            }
            Some((cx.end, st))
        }
    }
    // sequences: SKIP applications of SK before every element but the first
    pub struct RSeq2<A, B, SK, const SKIP: usize>(PhantomData<(A, B, SK)>);
    impl<A: RN, B: RN, SK: RNF, const SKIP: usize> RN for RSeq2<A, B, SK, SKIP> {
        fn ev(cx: &Cx<'_>, pos: usize, st: Stk) -> R {
            let (p, s) = A::ev(cx, pos, st)?;
            let (p, s) = skip_k::<SK>(cx, SKIP, p, s);
            B::ev(cx, p, s)
        }
    }
    pub struct RSeq3<A, B, C, SK, const SKIP: usize>(PhantomData<(A, B, C, SK)>);
    impl<A: RN, B: RN, C: RN, SK: RNF, const SKIP: usize> RN for RSeq3<A, B, C, SK, SKIP> {
        fn ev(cx: &Cx<'_>, pos: usize, st: Stk) -> R {
            let (p, s) = A::ev(cx, pos, st)?;
            let (p, s) = skip_k::<SK>(cx, SKIP, p, s);
            let (p, s) = B::ev(cx, p, s)?;
            let (p, s) = skip_k::<SK>(cx, SKIP, p, s);
            C::ev(cx, p, s)
        }
    }
    pub struct RSeq4<A, B, C, D, SK, const SKIP: usize>(PhantomData<(A, B, C, D, SK)>);
    impl<A: RN, B: RN, C: RN, D: RN, SK: RNF, const SKIP: usize> RN for RSeq4<A, B, C, D, SK, SKIP> {
        fn ev(cx: &Cx<'_>, pos: usize, st: Stk) -> R {
            let (p, s) = A::ev(cx, pos, st)?;
            let (p, s) = skip_k::<SK>(cx, SKIP, p, s);
            let (p, s) = B::ev(cx, p, s)?;
            let (p, s) = skip_k::<SK>(cx, SKIP, p, s);
            let (p, s) = C::ev(cx, p, s)?;
            let (p, s) = skip_k::<SK>(cx, SKIP, p, s);
            D::ev(cx, p, s)
        }
    }
    // ordered choice: every alternative on the original (pos, st)
    pub struct RChoice2<A, B>(PhantomData<(A, B)>);
    impl<A: RN, B: RN> RN for RChoice2<A, B> {
        fn ev(cx: &Cx<'_>, pos: usize, st: Stk) -> R { match A::ev(cx, pos, st) { Some(r) => Some(r), None => B::ev(cx, pos, st) } }
    }
    pub struct RChoice3<A, B, C>(PhantomData<(A, B, C)>);
    impl<A: RN, B: RN, C: RN> RN for RChoice3<A, B, C> {
        fn ev(cx: &Cx<'_>, pos: usize, st: Stk) -> R {
            match A::ev(cx, pos, st) { Some(r) => Some(r), None => match B::ev(cx, pos, st) { Some(r) => Some(r), None => C::ev(cx, pos, st) } }
        }
    }
    pub struct ROpt<A>(PhantomData<A>);
    impl<A: RN> RN for ROpt<A> {
        fn ev(cx: &Cx<'_>, pos: usize, st: Stk) -> R { match A::ev(cx, pos, st) { Some(r) => Some(r), None => Some((pos, st)) } }
    }
    /// greedy repetition: MIN..=MAX units (MAX = usize::MAX: unbounded); unit i>0 = SKIP skips then the body,
    /// evaluated from the state after unit i-1; the state after a failed unit is the state before it.
    pub struct RRep<A, SK, const SKIP: usize, const MIN: usize, const MAX: usize>(PhantomData<(A, SK)>);
    impl<A: RN, SK: RNF, const SKIP: usize, const MIN: usize, const MAX: usize> RN for RRep<A, SK, SKIP, MIN, MAX> {
        fn ev(cx: &Cx<'_>, pos: usize, st: Stk) -> R {
            let (mut p, mut s) = (pos, st);
            let mut n = 0usize;
            while n < MAX {
                let (q, t) = if n > 0 { skip_k::<SK>(cx, SKIP, p, s) } else { (p, s) };
                match A::ev(cx, q, t) { Some((q2, t2)) => { p = q2; s = t2; n += 1; } None => break }
            }
            if n < MIN && n < MAX { None } else { Some((p, s)) }
        }
    }
    impl<A: RN, SK: RNF, const SKIP: usize, const MIN: usize, const MAX: usize> RNF for RRep<A, SK, SKIP, MIN, MAX> {
        fn evn(cx: &Cx<'_>, pos: usize, st: Stk) -> (usize, Stk) { match <Self as RN>::ev(cx, pos, st) { Some(r) => r, None => (pos, st) } }
    }
    pub struct RNoSkip;
    impl RNF for RNoSkip { fn evn(_cx: &Cx<'_>, pos: usize, st: Stk) -> (usize, Stk) { (pos, st) } }
    pub struct RPos<A>(PhantomData<A>);
    impl<A: RN> RN for RPos<A> { fn ev(cx: &Cx<'_>, pos: usize, st: Stk) -> R { match A::ev(cx, pos, st) { Some(_) => Some((pos, st)), None => None } } }
    pub struct RNeg<A>(PhantomData<A>);
    impl<A: RN> RN for RNeg<A> { fn ev(cx: &Cx<'_>, pos: usize, st: Stk) -> R { match A::ev(cx, pos, st) { Some(_) => None, None => Some((pos, st)) } } }
    pub struct RPush<A>(PhantomData<A>);
    impl<A: RN> RN for RPush<A> {
        fn ev(cx: &Cx<'_>, pos: usize, st: Stk) -> R { let (p, s) = A::ev(cx, pos, st)?; s.push(pos, p).map(|s2| (p, s2)) }
    }
    pub struct RPeek;
    impl RN for RPeek {
        fn ev(cx: &Cx<'_>, pos: usize, st: Stk) -> R {
            let (_, (a, b)) = st.pop()?;
            if starts(cx, pos, &cx.s.as_bytes()[a..b]) { Some((pos + (b - a), st)) } else { None }
        }
    }
    pub struct RPop;
    impl RN for RPop {
        fn ev(cx: &Cx<'_>, pos: usize, st: Stk) -> R {
            let (s2, (a, b)) = st.pop()?;
            if starts(cx, pos, &cx.s.as_bytes()[a..b]) { Some((pos + (b - a), s2)) } else { None }
        }
    }
    pub struct RDrop;
    impl RN for RDrop { fn ev(_cx: &Cx<'_>, pos: usize, st: Stk) -> R { st.pop().map(|(s2, _)| (pos, s2)) } }
    fn match_all(cx: &Cx<'_>, pos: usize, st: Stk) -> Option<usize> {
        let mut p = pos;
        let mut i = st.n;
        while i > 0 {
            i -= 1;
            let (a, b) = st.s[i];
            if !starts(cx, p, &cx.s.as_bytes()[a..b]) { return None; }
            p += b - a;
        }
        Some(p)
    }
    pub struct RPeekAll;
    impl RN for RPeekAll { fn ev(cx: &Cx<'_>, pos: usize, st: Stk) -> R { match_all(cx, pos, st).map(|p| (p, st)) } }
    pub struct RPopAll;
    impl RN for RPopAll { fn ev(cx: &Cx<'_>, pos: usize, st: Stk) -> R { match_all(cx, pos, st).map(|p| (p, Stk::new())) } }
    /// PEEK[a..b]: entries a..b bottom to top; negative indices from the top; empty or inverted range consumes nothing
    pub fn peek_slice(cx: &Cx<'_>, pos: usize, st: Stk, a: i32, b: Option<i32>) -> R {
        let lo = norm(a, st.n)?;
        let hi = match b { Some(b) => norm(b, st.n)?, None => st.n };
        let mut p = pos;
        let mut i = lo;
        while i < hi {
            let (x, y) = st.s[i];
            if !starts(cx, p, &cx.s.as_bytes()[x..y]) { return None; }
            p += y - x;
            i += 1;
        }
        Some((p, st))
    }
    pub struct RPeekSlice2<const A: i32, const B: i32>;
    impl<const A: i32, const B: i32> RN for RPeekSlice2<A, B> { fn ev(cx: &Cx<'_>, pos: usize, st: Stk) -> R { peek_slice(cx, pos, st, A, Some(B)) } }
    pub struct RPeekSlice1<const A: i32>;
    impl<const A: i32> RN for RPeekSlice1<A> { fn ev(cx: &Cx<'_>, pos: usize, st: Stk) -> R { peek_slice(cx, pos, st, A, None) } }
}
