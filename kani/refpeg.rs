// refpeg — executable reference PEG interpreter = the denotation `sem` of DESIGN.md §4 in executable form.
// Immutable stack (a Copy array), full backtracking, empty-stack / out-of-range operations fail.
// Written from the property statements (C01, C05, C06, C07, C19), not from the code under test.
pub mod refpeg {
    pub const STK: usize = 4;
    #[derive(Clone, Copy, PartialEq, Eq, Debug)]
    pub struct Stk {
        pub s: [(usize, usize); STK],
        pub n: usize,
    }
    impl Stk {
        pub const fn new() -> Self { Stk { s: [(0, 0); STK], n: 0 } }
        pub fn push(mut self, a: usize, b: usize) -> Option<Self> {
            if self.n >= STK { return None; }
            self.s[self.n] = (a, b);
            self.n += 1;
            Some(self)
        }
        pub fn pop(mut self) -> Option<(Self, (usize, usize))> {
            if self.n == 0 { return None; }
            self.n -= 1;
            Some((self, self.s[self.n]))
        }
    }
    pub const INF: usize = usize::MAX;
    #[derive(Clone, Copy)]
    pub enum E {
        Str(&'static str),
        Insens(&'static str),
        Range(char, char),
        Any,
        Soi,
        Eoi,
        Newline,
        SkipChar(usize),
        SkipUntil(&'static [&'static str]),
        /// elements, number of skips between elements
        Seq(&'static [E], usize),
        Choice(&'static [E]),
        Opt(&'static E),
        /// body, min, max (INF = unbounded), number of skips between iterations
        Rep(&'static E, usize, usize, usize),
        Pos(&'static E),
        Neg(&'static E),
        Push(&'static E),
        Peek,
        Pop,
        Drop,
        PeekAll,
        PopAll,
        PeekSlice(i32, Option<i32>),
    }
    /// the input is `s[start..end]`; cursor `pos`; `skip` = the WHITESPACE/COMMENT expression (None: nothing to skip)
    pub struct Cx<'a> {
        pub s: &'a str,
        pub start: usize,
        pub end: usize,
        pub skip: Option<&'static E>,
    }
    fn starts(cx: &Cx<'_>, pos: usize, lit: &[u8]) -> bool {
        let b = cx.s.as_bytes();
        if pos + lit.len() > cx.end { return false; }
        let mut i = 0;
        while i < lit.len() {
            if b[pos + i] != lit[i] { return false; }
            i += 1;
        }
        true
    }
    fn lower(x: u8) -> u8 { if x >= b'A' && x <= b'Z' { x + 32 } else { x } }
    fn first_char(cx: &Cx<'_>, pos: usize) -> Option<(char, usize)> {
        if pos >= cx.end { return None; }
        let c = cx.s[pos..cx.end].chars().next()?;
        Some((c, c.len_utf8()))
    }
    fn norm(i: i32, len: usize) -> Option<usize> {
        let (i, l) = (i as i64, len as i64);
        if i > l { None } else if i >= 0 { Some(i as usize) } else if l + i >= 0 { Some((l + i) as usize) } else { None }
    }
    /// the skip expression applied `k` times (it never fails: a failing skip attempt skips nothing)
    fn skip_k(cx: &Cx<'_>, k: usize, mut pos: usize, mut st: Stk) -> (usize, Stk) {
        let mut i = 0;
        while i < k {
            if let Some(e) = cx.skip {
                if let Some((p, s)) = eval(e, cx, pos, st) { pos = p; st = s; }
            }
            i += 1;
        }
        (pos, st)
    }
    pub fn eval(e: &E, cx: &Cx<'_>, pos: usize, st: Stk) -> Option<(usize, Stk)> {
        match *e {
            E::Str(l) => if starts(cx, pos, l.as_bytes()) { Some((pos + l.len(), st)) } else { None },
            E::Insens(l) => {
                let b = cx.s.as_bytes();
                let lb = l.as_bytes();
                if pos + lb.len() > cx.end || !cx.s.is_char_boundary(pos + lb.len()) { return None; }
                let mut i = 0;
                while i < lb.len() {
                    if lower(b[pos + i]) != lower(lb[i]) { return None; }
                    i += 1;
                }
                Some((pos + lb.len(), st))
            }
            E::Range(lo, hi) => match first_char(cx, pos) { Some((c, n)) if lo <= c && c <= hi => Some((pos + n, st)), _ => None },
            E::Any => first_char(cx, pos).map(|(_, n)| (pos + n, st)),
            E::Soi => if pos == cx.start { Some((pos, st)) } else { None },
            E::Eoi => if pos == cx.end { Some((pos, st)) } else { None },
            E::Newline => {
                if starts(cx, pos, b"\r\n") { Some((pos + 2, st)) }
                else if starts(cx, pos, b"\n") { Some((pos + 1, st)) }
                else if starts(cx, pos, b"\r") { Some((pos + 1, st)) }
                else { None }
            }
            E::SkipChar(n) => {
                let mut p = pos;
                let mut i = 0;
                while i < n {
                    match first_char(cx, p) { Some((_, k)) => p += k, None => return None }
                    i += 1;
                }
                Some((p, st))
            }
            E::SkipUntil(needles) => {
                // least boundary offset at which a needle is a prefix of the remaining *sub-input*, else end
                let mut p = pos;
                while p < cx.end {
                    if cx.s.is_char_boundary(p) {
                        let mut j = 0;
                        while j < needles.len() {
                            if starts(cx, p, needles[j].as_bytes()) { return Some((p, st)); }
                            j += 1;
                        }
                    }
                    p += 1;
                }
                Some((cx.end, st))
            }
            E::Seq(items, skip) => {
                let (mut p, mut s) = (pos, st);
                let mut i = 0;
                while i < items.len() {
                    if i > 0 { let r = skip_k(cx, skip, p, s); p = r.0; s = r.1; }
                    match eval(&items[i], cx, p, s) { Some((q, t)) => { p = q; s = t; } None => return None }
                    i += 1;
                }
                Some((p, s))
            }
            E::Choice(alts) => {
                let mut i = 0;
                while i < alts.len() {
                    if let Some(r) = eval(&alts[i], cx, pos, st) { return Some(r); }
                    i += 1;
                }
                None
            }
            E::Opt(x) => match eval(x, cx, pos, st) { Some(r) => Some(r), None => Some((pos, st)) },
            E::Rep(x, min, max, skip) => {
                let (mut p, mut s) = (pos, st);
                let mut n = 0usize;
                while n < max {
                    let (q, t) = if n > 0 { skip_k(cx, skip, p, s) } else { (p, s) };
                    match eval(x, cx, q, t) {
                        Some((q2, t2)) => { p = q2; s = t2; n += 1; }
                        None => break,
                    }
                }
                // fails iff the repetition stopped (a unit failed) before `min` units
                if n < min && n < max { None } else { Some((p, s)) }
            }
            E::Pos(x) => match eval(x, cx, pos, st) { Some(_) => Some((pos, st)), None => None },
            E::Neg(x) => match eval(x, cx, pos, st) { Some(_) => None, None => Some((pos, st)) },
            E::Push(x) => match eval(x, cx, pos, st) { Some((p, s)) => s.push(pos, p).map(|s2| (p, s2)), None => None },
            E::Peek => match st.pop() {
                Some((_, (a, b))) => if starts(cx, pos, &cx.s.as_bytes()[a..b]) { Some((pos + (b - a), st)) } else { None },
                None => None,
            },
            E::Pop => match st.pop() {
                Some((s2, (a, b))) => if starts(cx, pos, &cx.s.as_bytes()[a..b]) { Some((pos + (b - a), s2)) } else { None },
                None => None,
            },
            E::Drop => st.pop().map(|(s2, _)| (pos, s2)),
            E::PeekAll | E::PopAll => {
                // top to bottom
                let mut p = pos;
                let mut i = st.n;
                while i > 0 {
                    i -= 1;
                    let (a, b) = st.s[i];
                    if !starts(cx, p, &cx.s.as_bytes()[a..b]) { return None; }
                    p += b - a;
                }
                let out = if let E::PopAll = *e { Stk::new() } else { st };
                Some((p, out))
            }
            E::PeekSlice(a, b) => {
                // entries a..b bottom to top; negative from the top; empty or inverted range: nothing consumed
                let lo = norm(a, st.n)?;
                let hi = match b { Some(b) => norm(b, st.n)?, None => st.n };
                let mut p = pos;
                let mut i = lo;
                while i < hi {
                    let (x, y) = st.s[i];
                    if !starts(cx, p, &cx.s.as_bytes()[x..y]) { return None; }
                    p += y - x;
                    i += 1;
                }
                Some((p, st))
            }
        }
    }
}
