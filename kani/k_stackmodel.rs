// k-stackmodel — R4: the model of pest::Stack that every Verus unit assumes (cur + stack of snapshots)
// is compared with the *real* pest::Stack (re-exported as pest_typed::Stack) on symbolic operation
// sequences.  bounded(OPS): every sequence of at most OPS operations from
// {push, pop, snapshot, clear_snapshot, restore}; after each operation len(), peek() and the full
// contents must equal the model's.
mod k_stackmodel {
    use crate::Stack;

    const CAP: usize = 8;
    #[derive(Clone, Copy)]
    struct Model {
        cur: [u8; CAP],
        len: usize,
        snaps: [([u8; CAP], usize); CAP],
        nsnaps: usize,
    }
    impl Model {
        fn new() -> Self { Model { cur: [0; CAP], len: 0, snaps: [([0; CAP], 0); CAP], nsnaps: 0 } }
        fn push(&mut self, x: u8) { self.cur[self.len] = x; self.len += 1; }
        fn pop(&mut self) -> Option<u8> { if self.len == 0 { None } else { self.len -= 1; Some(self.cur[self.len]) } }
        fn snapshot(&mut self) { self.snaps[self.nsnaps] = (self.cur, self.len); self.nsnaps += 1; }
        fn clear_snapshot(&mut self) { if self.nsnaps > 0 { self.nsnaps -= 1; } }
        fn restore(&mut self) {
            if self.nsnaps > 0 { self.nsnaps -= 1; let (c, l) = self.snaps[self.nsnaps]; self.cur = c; self.len = l; } else { self.len = 0; }
        }
    }

    fn same(real: &Stack<u8>, m: &Model) -> bool {
        if real.len() != m.len { return false; }
        let s = &real[0..real.len()];
        let mut k = 0;
        while k < CAP {
            if k < m.len && s[k] != m.cur[k] { return false; }
            k += 1;
        }
        match real.peek() { None => m.len == 0, Some(t) => m.len > 0 && *t == m.cur[m.len - 1] }
    }

    fn run<const OPS: usize>() {
        let mut real: Stack<u8> = Stack::new();
        let mut m = Model::new();
        let n: usize = kani::any();
        kani::assume(n <= OPS);
        let mut i = 0;
        while i < OPS {
            if i < n {
                let op: u8 = kani::any();
                kani::assume(op < 5);
                match op {
                    0 => { let x: u8 = kani::any(); kani::assume(x < 3); real.push(x); m.push(x); }
                    1 => { let a = real.pop(); let b = m.pop(); assert!(a == b); }
                    2 => { real.snapshot(); m.snapshot(); }
                    3 => { real.clear_snapshot(); m.clear_snapshot(); }
                    _ => { real.restore(); m.restore(); }
                }
                assert!(same(&real, &m));
            }
            i += 1;
        }
    }

    #[kani::proof]
    #[kani::unwind(10)]
    fn stack_refines_model_3() { run::<3>(); }

    // Lengths only, on Stack<()> (zero-sized elements: no heap modelling, so longer sequences are tractable).
    fn run_len<const OPS: usize>() {
        let mut real: Stack<()> = Stack::new();
        let mut m = Model::new();
        let n: usize = kani::any();
        kani::assume(n <= OPS);
        let mut i = 0;
        while i < OPS {
            if i < n {
                let op: u8 = kani::any();
                kani::assume(op < 5);
                match op {
                    0 => { real.push(()); m.push(0); }
                    1 => { let a = real.pop(); let b = m.pop(); assert!(a.is_some() == b.is_some()); }
                    2 => { real.snapshot(); m.snapshot(); }
                    3 => { real.clear_snapshot(); m.clear_snapshot(); }
                    _ => { real.restore(); m.restore(); }
                }
                assert!(real.len() == m.len);
                assert!(real.peek().is_some() == (m.len > 0));
            }
            i += 1;
        }
    }
    #[kani::proof]
    #[kani::unwind(10)]
    fn stack_len_refines_model_7() { run_len::<7>(); }

    // The same comparison restricted to how the runtime crate uses the stack: snapshots are always
    // closed in LIFO order by restore_on_none / predicates, i.e. every clear_snapshot/restore matches an
    // open snapshot.  (The unrestricted harness above also exercises restore/clear without a snapshot.)
}
