// nb_input — bounded cross-checks (native exhaustive enumeration) of contracts the Verus unit `input`
// *assumes* rather than proves, and of the std shims' specifications (R3):
//   * Input::skip_until   (`continue` in a for loop is not supported by Verus)       -> contract INPUT_SIGS['skip_until']
//   * Input::skip         (Chars iterator without vstd spec)                          -> contract INPUT_SIGS['skip']
//   * shims: str::get(..n) / get(n..) / get(a..b) / starts_with / eq_ignore_ascii_case / chars().next()
//   * the UTF-8 lemmas admitted in the unit (prefix boundary, sub-slice boundaries, first scalar)
// Bound: every string of at most 4 characters over {a, *, /, é (2 bytes), € (3 bytes), 😀 (4 bytes)},
// every sub-input (a, b) on character boundaries, every cursor.  Labelled bounded; never counted as proved.
use pest_typed::{AsInput, Input, Position, Span};

const ALPHA: [&str; 6] = ["a", "*", "/", "é", "€", "😀"];

fn strings(max: usize) -> Vec<String> {
    let mut out = vec![String::new()];
    let mut cur = vec![String::new()];
    for _ in 0..max {
        let mut next = Vec::new();
        for s in &cur {
            for a in ALPHA.iter() {
                let mut t = s.clone();
                t.push_str(a);
                next.push(t);
            }
        }
        out.extend(next.iter().cloned());
        cur = next;
    }
    out
}
fn boundaries(s: &str) -> Vec<usize> { (0..=s.len()).filter(|&i| s.is_char_boundary(i)).collect() }

// ---- specifications, written over bytes (the same definitions as the Verus spec fns) ---------------------------
fn is_prefix(p: &[u8], s: &[u8]) -> bool { p.len() <= s.len() && &s[..p.len()] == p }
fn boundary_bytes(b: &[u8], i: usize) -> bool { i == 0 || i == b.len() || (i < b.len() && (b[i] & 0xC0) != 0x80) }
fn needle_at(s: &str, end: usize, needles: &[&str], k: usize) -> bool {
    k <= end && boundary_bytes(s.as_bytes(), k) && needles.iter().any(|n| is_prefix(n.as_bytes(), &s.as_bytes()[k..end]))
}
/// least k in pos..=end with (k == end || needle_at(k)) — the contract's skip_until_stop
fn skip_until_spec(s: &str, end: usize, needles: &[&str], pos: usize) -> usize {
    let mut k = pos;
    while k < end { if needle_at(s, end, needles, k) { return k; } k += 1; }
    end
}
fn skip_spec(rest: &str, n: usize) -> Option<usize> {
    let mut it = rest.chars();
    let mut len = 0;
    for _ in 0..n { len += it.next()?.len_utf8(); }
    Some(len)
}

const NEEDLES: [&[&str]; 5] = [&["*/"], &["a", "é"], &["€/", "/"], &["😀"], &["", "a"]];

#[test]
fn nb_skip_until_contract() {
    let mut cases = 0u64;
    for s in strings(4) {
        let bs = boundaries(&s);
        for &a in &bs { for &b in &bs { if a > b { continue; }
            for needles in NEEDLES.iter() {
                // sub-input a..b (Span), every cursor is reached by skipping: start at a
                let span = Span::new(&s, a, b).unwrap();
                let mut input = span.as_input();
                // also exercise cursors inside: advance by 0..2 chars first
                for adv in 0..3 {
                    let mut i2 = input;
                    if !i2.skip(adv) { continue; }
                    let pos = i2.byte_offset();
                    // needles must be 'static for the trait signature: they are
                    let needles_static: &'static [&'static str] = *needles;
                    let res = i2.skip_until(needles_static);
                    let want = skip_until_spec(&s, b, needles, pos);
                    cases += 1;
                    if i2.byte_offset() != want || res != (want < b) {
                        println!("NB-RESULT name=nb_skip_until_contract status=fail cases={} key=s={:?},span={}..{},cursor={},needles={:?} detail=skip_until stopped at {} (returned {}), contract: {} ({})", cases, s, a, b, pos, needles, i2.byte_offset(), res, want, want < b);
                        return;
                    }
                }
                let _ = &mut input;
            }
        } }
    }
    println!("NB-RESULT name=nb_skip_until_contract status=ok cases={} key=- detail=all strings<=4 chars x all spans x 3 cursors x 5 needle sets", cases);
}

#[test]
fn nb_skip_contract() {
    let mut cases = 0u64;
    for s in strings(4) {
        let bs = boundaries(&s);
        for &a in &bs { for &b in &bs { if a > b { continue; }
            for n in 0..6usize {
                let mut i = Span::new(&s, a, b).unwrap().as_input();
                let r = i.skip(n);
                cases += 1;
                let ok = match skip_spec(&s[a..b], n) { Some(k) => r && i.byte_offset() == a + k, None => !r && i.byte_offset() == a };
                if !ok {
                    println!("NB-RESULT name=nb_skip_contract status=fail cases={} key=s={:?},span={}..{},n={} detail=skip returned {} at {}", cases, s, a, b, n, r, i.byte_offset());
                    return;
                }
                // Position (whole string from a) and the Position override of next()
                let mut p = Position::new(&s, a).unwrap();
                let c = Input::next(&mut p);
                let want = s[a..].chars().next();
                if c != want || p.byte_offset() != a + want.map_or(0, |c| c.len_utf8()) {
                    println!("NB-RESULT name=nb_skip_contract status=fail cases={} key=s={:?},pos={} detail=Position::next returned {:?} at {}", cases, s, a, c, p.byte_offset());
                    return;
                }
            }
        } }
    }
    println!("NB-RESULT name=nb_skip_contract status=ok cases={} key=- detail=all strings<=4 chars x all spans x n<6; Position::next override", cases);
}

#[test]
fn nb_shims() {
    // the specifications given to std functions in the Verus units (R3), compared with the real functions
    let mut cases = 0u64;
    let all = strings(3);
    for s in &all {
        let b = s.as_bytes();
        for n in 0..=b.len() + 1 {
            cases += 1;
            let bd = n <= b.len() && boundary_bytes(b, n);
            if bd != s.is_char_boundary(n) && n <= b.len() { println!("NB-RESULT name=nb_shims status=fail cases={} key=boundary,s={:?},n={} detail=byte-level boundary definition disagrees with str::is_char_boundary", cases, s, n); return; }
            if s.get(..n).is_some() != bd || s.get(n..).is_some() != bd { println!("NB-RESULT name=nb_shims status=fail cases={} key=get,s={:?},n={} detail=str::get(..n)/get(n..) spec", cases, s, n); return; }
            if let Some(p) = s.get(..n) { if p.as_bytes() != &b[..n] { println!("NB-RESULT name=nb_shims status=fail cases={} key=get_to_bytes detail=x", cases); return; } }
            for m in 0..=n {
                let bm = m <= b.len() && boundary_bytes(b, m);
                if s.get(m..n).is_some() != (bd && bm) { println!("NB-RESULT name=nb_shims status=fail cases={} key=get_range,s={:?},{}..{} detail=str::get(a..b) spec", cases, s, m, n); return; }
            }
        }
        // chars().next(): the char whose encoding is a prefix; its length lands on a boundary
        match s.chars().next() {
            None => if !s.is_empty() { println!("NB-RESULT name=nb_shims status=fail cases={} key=first_char detail=None on non-empty", cases); return; },
            Some(c) => {
                let mut buf = [0u8; 4];
                let e = c.encode_utf8(&mut buf).as_bytes();
                if !is_prefix(e, b) || e.len() != c.len_utf8() || !s.is_char_boundary(e.len()) { println!("NB-RESULT name=nb_shims status=fail cases={} key=first_char,s={:?} detail=first char spec", cases, s); return; }
                // uniqueness (UTF-8 is prefix-free): no other char of the alphabet or ASCII encodes to a prefix of s
                for d in ALPHA.iter().flat_map(|a| a.chars()).chain((0u8..128).map(|x| x as char)) {
                    let mut b2 = [0u8; 4];
                    if d != c && is_prefix(d.encode_utf8(&mut b2).as_bytes(), b) { println!("NB-RESULT name=nb_shims status=fail cases={} key=prefix_free detail=two chars prefix {:?}", cases, s); return; }
                }
                // lemma_first_char_prefix: the prefix of length len_utf8(c) has first char c
                if s[..e.len()].chars().next() != Some(c) { println!("NB-RESULT name=nb_shims status=fail cases={} key=first_char_prefix detail=x", cases); return; }
            }
        }
        for t in &all {
            cases += 1;
            if s.starts_with(t.as_str()) != is_prefix(t.as_bytes(), b) { println!("NB-RESULT name=nb_shims status=fail cases={} key=starts_with,s={:?},t={:?} detail=starts_with spec", cases, s, t); return; }
            // A1: a valid prefix of a valid string ends on a boundary
            if is_prefix(t.as_bytes(), b) && !s.is_char_boundary(t.len()) { println!("NB-RESULT name=nb_shims status=fail cases={} key=A1,s={:?},t={:?} detail=valid prefix not on boundary", cases, s, t); return; }
        }
        // A2: boundaries of a boundary-delimited sub-slice are the parent's boundaries in that range
        let bs = boundaries(s);
        for &a in &bs { for &e in &bs { if a <= e {
            let sub = &s[a..e];
            for k in 0..=sub.len() { cases += 1; if sub.is_char_boundary(k) != s.is_char_boundary(a + k) { println!("NB-RESULT name=nb_shims status=fail cases={} key=A2,s={:?},{}..{},k={} detail=sub-slice boundary", cases, s, a, e, k); return; } }
        } } }
    }
    // eq_ignore_ascii_case: bytewise ASCII lower-casing
    let lower = |x: u8| if (65..=90).contains(&x) { x + 32 } else { x };
    for a in ["", "a", "A", "aB", "Ab", "é", "É", "k", "\u{212A}", "aé", "Aé"] { for b in ["", "a", "A", "aB", "AB", "é", "É", "K", "aé", "AÉ"] {
        cases += 1;
        let spec = a.len() == b.len() && a.bytes().zip(b.bytes()).all(|(x, y)| lower(x) == lower(y));
        if a.eq_ignore_ascii_case(b) != spec { println!("NB-RESULT name=nb_shims status=fail cases={} key=eq_ic,{:?},{:?} detail=eq_ignore_ascii_case spec", cases, a, b); return; }
    } }
    println!("NB-RESULT name=nb_shims status=ok cases={} key=- detail=std shims and UTF-8 lemmas on all strings<=3 chars over a 6-char alphabet (1-4 byte encodings)", cases);
}

/// every default matcher of trait Input, on every sub-input (Span) and every cursor, against the contracts of
/// unit `input` evaluated on rest = s[cursor..end] (bounded cross-check of what Verus proves, plus the release profile)
#[test]
fn nb_matchers() {
    let mut cases = 0u64;
    let lits: [&'static str; 6] = ["a", "é", "a*", "€", "😀a", ""];
    macro_rules! fail { ($($t:tt)*) => {{ println!("NB-RESULT name=nb_matchers status=fail cases={} key={}", cases, format!($($t)*)); return; }} }
    // every pair of ASCII characters: match_string is byte equality, match_insensitive is equality after folding A-Z only
    let ascii: Vec<String> = (0u8..128).map(|c| (c as char).to_string()).collect();
    let ascii: &'static Vec<String> = Box::leak(Box::new(ascii));
    for c1 in 0u8..128 { for c2 in 0u8..128 {
        cases += 1;
        let inp = format!("x{}y", c1 as char);
        let lit: &'static str = ascii[c2 as usize].as_str();
        let fold = |b: u8| if (b'A'..=b'Z').contains(&b) { b + 32 } else { b };
        let mut i = Span::new(&inp, 1, 3).unwrap().as_input(); let r = i.match_insensitive(lit);
        if r != (fold(c1) == fold(c2)) || i.byte_offset() != 1 + r as usize { fail!("s={:?},span=1..3,cursor=1,lit={:?} detail=match_insensitive returned {} and moved to {}", inp, lit, r, i.byte_offset()) }
        let mut i = Span::new(&inp, 1, 3).unwrap().as_input(); let r = i.match_string(lit);
        if r != (c1 == c2) || i.byte_offset() != 1 + r as usize { fail!("s={:?},span=1..3,cursor=1,lit={:?} detail=match_string returned {} and moved to {}", inp, lit, r, i.byte_offset()) }
    } }
    for s in strings(3) {
        let bs = boundaries(&s);
        for &a in &bs { for &b in &bs { if a > b { continue; }
            let base = Span::new(&s, a, b).unwrap().as_input();
            for adv in 0..3usize {
                let mut at = base;
                if !at.skip(adv) { continue; }
                let cur = at.byte_offset();
                let rest = &s[cur..b];
                cases += 1;
                if at.at_start() != (cur == a) || at.at_end() != (cur == b) { fail!("s={:?},span={}..{},cursor={} detail=at_start/at_end", s, a, b, cur) }
                // next / match_range / match_char_by: first scalar of rest
                let first = rest.chars().next();
                let mut i = at; let r = i.next();
                if r != first || i.byte_offset() != cur + first.map_or(0, |c| c.len_utf8()) { fail!("s={:?},span={}..{},cursor={} detail=next() returned {:?} and moved to {}", s, a, b, cur, r, i.byte_offset()) }
                let mut i = at; let r = i.match_range('a'..'\u{20ac}');
                let want = first.map_or(false, |c| 'a' <= c && c <= '\u{20ac}');
                if r != want || i.byte_offset() != cur + if want { first.unwrap().len_utf8() } else { 0 } { fail!("s={:?},span={}..{},cursor={} detail=match_range returned {} and moved to {}", s, a, b, cur, r, i.byte_offset()) }
                let mut i = at; let r = i.match_char_by(|c| c != 'a');
                let want = first.map_or(false, |c| c != 'a');
                if r != want || i.byte_offset() != cur + if want { first.unwrap().len_utf8() } else { 0 } { fail!("s={:?},span={}..{},cursor={} detail=match_char_by returned {} and moved to {}", s, a, b, cur, r, i.byte_offset()) }
                for l in lits.iter() {
                    let mut i = at; let r = i.match_string(l);
                    let want = rest.as_bytes().starts_with(l.as_bytes());
                    if r != want || i.byte_offset() != cur + if want { l.len() } else { 0 } { fail!("s={:?},span={}..{},cursor={},lit={:?} detail=match_string returned {} and moved to {}", s, a, b, cur, l, r, i.byte_offset()) }
                    let mut i = at; let r = i.match_insensitive(l);
                    let want = l.len() <= rest.len() && rest.is_char_boundary(l.len()) && rest[..l.len()].eq_ignore_ascii_case(l);
                    if r != want || i.byte_offset() != cur + if want { l.len() } else { 0 } { fail!("s={:?},span={}..{},cursor={},lit={:?} detail=match_insensitive returned {} and moved to {}", s, a, b, cur, l, r, i.byte_offset()) }
                    if !s.is_char_boundary(i.byte_offset()) { fail!("s={:?},span={}..{},cursor={},lit={:?} detail=cursor off a boundary", s, a, b, cur, l) }
                }
            }
        } }
    }
    println!("NB-RESULT name=nb_matchers status=ok cases={} key=- detail=at_start, at_end, next, match_range, match_char_by, match_string, match_insensitive on all strings<=3 chars over 1-4-byte chars x all spans x 3 cursors, plus match_string / match_insensitive on all 128x128 pairs of ASCII characters", cases);
}
