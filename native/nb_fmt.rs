// nb_fmt — C14: displaying any Span or Position never panics and marks the right text.  Bounded native
// enumeration through the public Display impls (`to_string()`, default FormatOption — FormatOption itself is
// not nameable outside the crate): every string of at most L characters over {LF, CR, TAB, a, 中 (wide), é}
// including the empty string, every span and every position including end of input.
// Checked against the statement of the property: (a) no panic; (b) the numbered rows carry correct 1-based
// line numbers and the visualised text of those input lines; (c) the first / last numbered row is the line
// holding the first / last character of the span (empty span or Position: the line holding that offset, the
// last line at end of input); (d) the markers lie on the display cells of exactly those characters.
use pest_typed::{Position, Span};
use unicode_width::UnicodeWidthStr;

const ALPHA: [&str; 6] = ["\n", "\r", "\t", "a", "中", "é"];
fn bound() -> usize { std::env::var("VERIF_NB_L").ok().and_then(|x| x.parse().ok()).unwrap_or(4) }
fn strings(max: usize) -> Vec<String> {
    let mut out = vec![String::new()];
    let mut cur = vec![String::new()];
    for _ in 0..max {
        let mut next = Vec::new();
        for s in &cur { for a in ALPHA.iter() { let mut t = s.clone(); t.push_str(a); next.push(t); } }
        out.extend(next.iter().cloned());
        cur = next;
    }
    out
}
/// control pictures (formatter.rs:19-61): U+0000..U+001F -> U+2400.., DEL -> U+2421
fn vis(s: &str) -> String { s.chars().map(|c| if (c as u32) < 0x20 { char::from_u32(0x2400 + c as u32).unwrap() } else if c == '\u{7f}' { '␡' } else { c }).collect() }
fn w(s: &str) -> usize { UnicodeWidthStr::width_cjk(vis(s).as_str()) }
/// input lines: split after every LF; (start offset, text incl. terminator); the empty input has one empty line
fn lines(s: &str) -> Vec<(usize, &str)> {
    let mut out = Vec::new();
    let mut st = 0;
    for (i, b) in s.bytes().enumerate() { if b == b'\n' { out.push((st, &s[st..=i])); st = i + 1; } }
    if st < s.len() || out.is_empty() { out.push((st, &s[st..])); }
    out
}
/// index of the line holding offset o (the last line at end of input)
fn line_of(ls: &[(usize, &str)], o: usize) -> usize {
    let mut k = 0;
    for (i, (st, t)) in ls.iter().enumerate() { if o >= *st && (o < st + t.len() || i + 1 == ls.len()) { k = i; break; } }
    k
}
struct Row { num: usize, text: String }
/// parse the rendering: numbered rows `N | text`, marker rows `  | ...`
fn parse(out: &str) -> Result<(Vec<Row>, Vec<String>), String> {
    let mut rows = Vec::new();
    let mut marks = Vec::new();
    for l in out.lines() {
        let bar = l.find(" |").ok_or_else(|| format!("row without bar: {:?}", l))?;
        let (left, right) = (&l[..bar], &l[bar + 2..]);
        let right = right.strip_prefix(' ').unwrap_or(right);
        if left.trim().is_empty() { marks.push(right.to_owned()); }
        else { rows.push(Row { num: left.trim().parse().map_err(|_| format!("bad line number {:?}", left))?, text: right.to_owned() }); }
    }
    Ok((rows, marks))
}

fn check_span(s: &str, a: usize, b: usize) -> Result<(), String> {
    let span = Span::new(s, a, b).unwrap();
    let out = std::panic::catch_unwind(|| span.to_string()).map_err(|_| "panic in Span::to_string()".to_owned())?;
    let ls = lines(s);
    let first = line_of(&ls, a);
    let last = if b > a { line_of(&ls, b - 1).max(first) } else { first };
    let (rows, marks) = parse(&out)?;
    if rows.is_empty() { return Err(format!("no numbered line shown: {:?}", out)); }
    if rows[0].num != first + 1 { return Err(format!("first numbered line is {} but the span starts on line {}", rows[0].num, first + 1)); }
    if rows[rows.len() - 1].num != last + 1 { return Err(format!("last numbered line is {} but the span ends on line {}", rows[rows.len() - 1].num, last + 1)); }
    for r in &rows {
        if r.num < 1 || r.num > ls.len() { return Err(format!("line number {} out of range", r.num)); }
        if r.text != vis(ls[r.num - 1].1) { return Err(format!("row {} shows {:?}, input line is {:?}", r.num, r.text, vis(ls[r.num - 1].1))); }
    }
    for k in 1..rows.len() { if rows[k].num <= rows[k - 1].num { return Err("line numbers not increasing".to_owned()); } }
    // markers
    let col0 = a - ls[first].0;
    if first == last {
        let pre = w(&ls[first].1[..col0]);
        let mid = w(&s[a..b]);
        let m = marks.last().ok_or("no marker row")?;
        let want = format!("{}{}", " ".repeat(pre), "^".repeat(mid));
        if m.trim_end() != want.trim_end() { return Err(format!("marker row {:?}, expected {:?}", m, want)); }
    } else {
        let pre = w(&ls[first].1[..col0]);
        let firstc = s[a..].chars().next().unwrap();
        let m0 = marks.first().ok_or("no marker row")?;
        let vcol = m0.find('v').ok_or_else(|| format!("no v marker in {:?}", m0))?;
        if !(vcol >= pre && vcol < pre + w(&firstc.to_string()).max(1)) { return Err(format!("v marker at cell {} but the first character occupies cells {}..{}", vcol, pre, pre + w(&firstc.to_string()))); }
        let lastc = s[..b].chars().last().unwrap();
        let upto = w(&ls[last].1[..b - ls[last].0]);
        let m1 = marks.last().unwrap();
        let ccol = m1.find('^').ok_or_else(|| format!("no ^ marker in {:?}", m1))?;
        let wl = w(&lastc.to_string()).max(1);
        if !(ccol + wl >= upto && ccol < upto) { return Err(format!("^ marker at cell {} but the last character occupies cells {}..{}", ccol, upto - wl, upto)); }
    }
    Ok(())
}
fn check_pos(s: &str, p: usize) -> Result<(), String> {
    let pos = Position::new(s, p).unwrap();
    let out = std::panic::catch_unwind(|| pos.to_string()).map_err(|_| "panic in Position::to_string()".to_owned())?;
    let ls = lines(s);
    let k = line_of(&ls, p);
    let (rows, marks) = parse(&out)?;
    if rows.len() != 1 { return Err(format!("{} numbered lines shown for a position: {:?}", rows.len(), out)); }
    if rows[0].num != k + 1 { return Err(format!("numbered line is {} but the offset is on line {}", rows[0].num, k + 1)); }
    if rows[0].text != vis(ls[k].1) { return Err(format!("row shows {:?}, input line is {:?}", rows[0].text, vis(ls[k].1))); }
    let pre = w(&ls[k].1[..p - ls[k].0]);
    let m = marks.last().ok_or("no marker row")?;
    if m.find('^') != Some(pre) { return Err(format!("^ marker at {:?} but the offset is at cell {}", m.find('^'), pre)); }
    Ok(())
}

#[test]
fn nb_fmt_span() {
    let l = bound();
    let mut cases = 0u64;
    let mut fails: Vec<(String, String)> = Vec::new();
    for s in strings(l) {
        let bs: Vec<usize> = (0..=s.len()).filter(|&i| s.is_char_boundary(i)).collect();
        for &a in &bs { for &b in &bs { if a <= b {
            cases += 1;
            if let Err(e) = check_span(&s, a, b) { fails.push((format!("s={:?},span={}..{}", s, a, b), e)); }
        } } }
    }
    report("nb_fmt_span", cases, fails, &format!("all strings<={} chars over {{LF,CR,TAB,a,中,é}} incl. empty x all spans", l));
}
#[test]
fn nb_fmt_pos() {
    let l = bound();
    let mut cases = 0u64;
    let mut fails: Vec<(String, String)> = Vec::new();
    for s in strings(l) {
        for p in (0..=s.len()).filter(|&i| s.is_char_boundary(i)) {
            cases += 1;
            if let Err(e) = check_pos(&s, p) { fails.push((format!("s={:?},pos={}", s, p), e)); }
        }
    }
    report("nb_fmt_pos", cases, fails, &format!("all strings<={} chars over {{LF,CR,TAB,a,中,é}} incl. empty x all positions incl. end of input", l));
}
/// many-line inputs: the elision branch (more than five lines), five-line spans that do not start on line 1, spans in
/// the middle of long inputs.  Strings over {LF, a} are enough to reach every line-count branch of the formatter.
fn strings2(alpha: &[&str], max: usize) -> Vec<String> {
    let mut out = vec![String::new()];
    let mut cur = vec![String::new()];
    for _ in 0..max {
        let mut next = Vec::new();
        for s in &cur { for a in alpha.iter() { let mut t = s.clone(); t.push_str(a); next.push(t); } }
        out.extend(next.iter().cloned());
        cur = next;
    }
    out
}
#[test]
fn nb_fmt_lines() {
    let l = std::env::var("VERIF_NB_L2").ok().and_then(|x| x.parse().ok()).unwrap_or(10usize);
    let mut cases = 0u64;
    let mut fails: Vec<(String, String)> = Vec::new();
    for s in strings2(&["\n", "a"], l) {
        for a in 0..=s.len() { for b in a..=s.len() {
            cases += 1;
            if let Err(e) = check_span(&s, a, b) { fails.push((format!("s={:?},span={}..{}", s, a, b), e)); }
        } }
        for p in 0..=s.len() {
            cases += 1;
            if let Err(e) = check_pos(&s, p) { fails.push((format!("s={:?},pos={}", s, p), e)); }
        }
    }
    report("nb_fmt_lines", cases, fails, &format!("all strings<={} chars over {{LF,a}} x all spans and positions (up to {} lines: five-line and elided renderings anywhere in the input)", l, l + 1));
}
/// failures are grouped into classes (the reason with digits / quoted text abstracted); the key lists one
/// minimal witness per class so that a *new* class of failure changes the key
fn report(name: &str, cases: u64, fails: Vec<(String, String)>, what: &str) {
    if fails.is_empty() { println!("NB-RESULT name={} status=ok cases={} key=- detail={}", name, cases, what); return; }
    let mut classes: Vec<(String, String, usize)> = Vec::new();
    for (k, e) in &fails {
        let mut cls = String::new();
        let mut inq = false;
        for c in e.chars() { if c == '"' { inq = !inq; cls.push('"'); } else if inq { } else if c.is_ascii_digit() { if !cls.ends_with('#') { cls.push('#'); } } else { cls.push(c); } }
        match classes.iter_mut().find(|x| x.0 == cls) { Some(x) => x.2 += 1, None => classes.push((cls, k.clone(), 1)) }
    }
    classes.sort();
    let key = classes.iter().map(|(c, k, _)| format!("[{}@{}]", c.replace(' ', "_"), k.replace(' ', "_"))).collect::<Vec<_>>().join("");
    let det = classes.iter().map(|(c, k, n)| format!("{} x{} e.g. {}", c, n, k)).collect::<Vec<_>>().join("; ");
    println!("NB-RESULT name={} status=fail cases={} key={} detail={} failing of {}: {}", name, cases, key, fails.len(), cases, det);
}
