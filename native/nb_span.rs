// nb_span — C13: Span operations agree with pest::Span.  Bounded native enumeration: every string of at most L
// characters over {LF, CR, a, é, €}, every (start, end) pair incl. invalid / non-boundary ones for `new`, every
// valid span for the accessors, every sub-range form for `get`, every pair of valid spans for merge_spans.
use pest_typed::{merge_spans, Span};

const ALPHA: [&str; 5] = ["\n", "\r", "a", "é", "€"];
fn bound() -> usize { std::env::var("VERIF_NB_L").ok().and_then(|x| x.parse().ok()).unwrap_or(4) }
fn strings(max: usize) -> Vec<String> {
    let mut out = vec![String::new()];
    let mut cur = vec![String::new()];
    for _ in 0..max {
        let mut next = Vec::new();
        for s in &cur { for a in ALPHA.iter() { let mut t = s.clone(); t.push_str(a); next.push(t); } }
        out.extend(next.iter().cloned());
        cur = next;
    }
    out
}
fn se(o: Option<Span<'_>>) -> Option<(usize, usize)> { o.map(|s| (s.start(), s.end())) }
fn pe(o: Option<pest::Span<'_>>) -> Option<(usize, usize)> { o.map(|s| (s.start(), s.end())) }

fn check(s: &str, cases: &mut u64) -> Result<(), String> {
    let n = s.len();
    let mut valid = Vec::new();
    for a in 0..=n + 1 { for b in 0..=n + 1 {
        *cases += 1;
        let o = Span::new(s, a, b);
        let p = pest::Span::new(s, a, b);
        if se(o) != pe(p) { return Err(format!("new,s={:?},{}..{} detail=pest_typed {:?} vs pest {:?}", s, a, b, se(o), pe(p))); }
        if let (Some(o), Some(p)) = (o, p) { valid.push((o, p)); }
    } }
    for (o, p) in &valid {
        *cases += 1;
        let key = format!("s={:?},span={}..{}", s, o.start(), o.end());
        if o.as_str() != p.as_str() { return Err(format!("as_str,{} detail=text differs", key)); }
        let (oa, ob) = o.split(); let (pa, pb) = p.clone().split();
        if (oa.pos(), ob.pos()) != (pa.pos(), pb.pos()) { return Err(format!("split,{} detail=positions differ", key)); }
        if o.start_pos().pos() != p.start_pos().pos() || o.end_pos().pos() != p.end_pos().pos() { return Err(format!("start_pos,{} detail=x", key)); }
        // the positions handed out by split / start_pos / end_pos are positions in the WHOLE input: line, column and line text as pest's
        for (name, ours, theirs) in [("split.0", oa, pa.clone()), ("split.1", ob, pb.clone()), ("start_pos", o.start_pos(), p.start_pos()), ("end_pos", o.end_pos(), p.end_pos())] {
            if ours.line_col() != theirs.line_col() || ours.line_of() != theirs.line_of() {
                return Err(format!("{},{} detail=line_col/line_of of the position differ: pest_typed {:?} {:?} vs pest {:?} {:?}", name, key, ours.line_col(), ours.line_of(), theirs.line_col(), theirs.line_of()));
            }
            if ours != pest_typed::Position::new(s, ours.pos()).unwrap() { return Err(format!("{},{} detail=position is not equal to Position::new(input, offset)", name, key)); }
        }
        let ol: Vec<&str> = o.lines().collect(); let pl: Vec<&str> = p.lines().collect();
        if ol != pl { return Err(format!("lines,{} detail=pest_typed {:?} vs pest {:?}", key, ol, pl)); }
        let os: Vec<(usize, usize)> = o.lines_span().map(|x| (x.start(), x.end())).collect();
        let ps: Vec<(usize, usize)> = p.lines_span().map(|x| (x.start(), x.end())).collect();
        if os != ps { return Err(format!("lines_span,{} detail=pest_typed {:?} vs pest {:?}", key, os, ps)); }
        let len = o.as_str().len();
        for a in 0..=len + 1 { for b in 0..=len + 1 {
            *cases += 1;
            macro_rules! g { ($r:expr, $name:literal) => {
                let x = std::panic::catch_unwind(std::panic::AssertUnwindSafe(|| se(o.get($r))));
                let y = pe(p.get($r));
                match x { Ok(x) if x == y => {}, Ok(x) => return Err(format!("get,{},range={}({},{}) detail=pest_typed {:?} vs pest {:?}", key, $name, a, b, x, y)),
                          Err(_) => return Err(format!("get,{},range={}({},{}) detail=panic, pest {:?}", key, $name, a, b, y)) }
            } }
            g!(a..b, "a..b"); g!(a..=b, "a..=b");
            if a == 0 { g!(..b, "..b"); g!(..=b, "..=b"); }
            if b == 0 { g!(a.., "a.."); }
            if a == 0 && b == 0 { g!(.., ".."); }
            // explicit bound pairs reach the arms no range syntax reaches (an EXCLUDED start bound)
            {
                use std::ops::Bound::*;
                g!((Excluded(a), Excluded(b)), "(Excluded,Excluded)"); g!((Excluded(a), Included(b)), "(Excluded,Included)");
                if b == 0 { g!((Excluded(a), Unbounded), "(Excluded,Unbounded)"); }
                g!((Included(a), Excluded(b)), "(Included,Excluded)");
                if a == 0 { g!((Unbounded, Included(b)), "(Unbounded,Included)"); }
            }
        } }
    }
    for (o1, p1) in &valid { for (o2, p2) in &valid {
        *cases += 1;
        let x = se(merge_spans(o1, o2)); let y = pe(pest::merge_spans(p1, p2));
        if x != y { return Err(format!("merge_spans,s={:?},{}..{},{}..{} detail=pest_typed {:?} vs pest {:?}", s, o1.start(), o1.end(), o2.start(), o2.end(), x, y)); }
        // statement of the property: merging succeeds exactly for overlapping or adjacent spans and yields the hull
        let adj = o1.end() >= o2.start() && o1.start() <= o2.end();
        let hull = (o1.start().min(o2.start()), o1.end().max(o2.end()));
        if x != (if adj { Some(hull) } else { None }) { return Err(format!("merge_hull,s={:?},{}..{},{}..{} detail=result {:?}", s, o1.start(), o1.end(), o2.start(), o2.end(), x)); }
    } }
    Ok(())
}

#[test]
fn nb_span() {
    let l = bound();
    let mut cases = 0u64;
    for s in strings(l) {
        if let Err(e) = check(&s, &mut cases) { println!("NB-RESULT name=nb_span status=fail cases={} key={}", cases, e); return; }
    }
    println!("NB-RESULT name=nb_span status=ok cases={} key=- detail=all strings of <= {} chars over {{LF,CR,a,é,€}}: new (all index pairs), as_str, split, lines, lines_span, get (6 range forms + explicit bound pairs incl. excluded starts), positions from split/start_pos/end_pos (line_col, line_of), merge_spans (all span pairs) equal pest's", cases, l);
}
