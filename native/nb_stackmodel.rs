// nb_stackmodel — bounded cross-check of the trusted model of pest::Stack (R4 in DESIGN.md) against the
// real type (pest_typed::Stack = pest::Stack): exhaustive enumeration, natively, of every operation
// sequence up to a stated length.  This is a labelled bounded stand-in for an *assumed* dependency
// contract; it is never counted as a discharged obligation.  (CBMC on the Vec-based implementation
// needed > 40 GB for 7 symbolic operations, so the enumeration is done natively.)
use pest_typed::Stack;

#[derive(Clone, Copy, PartialEq, Debug)]
enum Op { PushA, PushB, Pop, Snap, Clear, Restore }
const OPS: [Op; 6] = [Op::PushA, Op::PushB, Op::Pop, Op::Snap, Op::Clear, Op::Restore];

#[derive(Clone, Default)]
struct Model { cur: Vec<u8>, snaps: Vec<Vec<u8>> }
impl Model {
    fn apply(&mut self, op: Op) -> Option<u8> {
        match op {
            Op::PushA => { self.cur.push(1); None }
            Op::PushB => { self.cur.push(2); None }
            Op::Pop => self.cur.pop(),
            Op::Snap => { self.snaps.push(self.cur.clone()); None }
            Op::Clear => { self.snaps.pop(); None }
            Op::Restore => { match self.snaps.pop() { Some(c) => self.cur = c, None => self.cur.clear() }; None }
        }
    }
}
fn apply_real(s: &mut Stack<u8>, op: Op) -> Option<u8> {
    match op {
        Op::PushA => { s.push(1); None }
        Op::PushB => { s.push(2); None }
        Op::Pop => s.pop(),
        Op::Snap => { s.snapshot(); None }
        Op::Clear => { s.clear_snapshot(); None }
        Op::Restore => { s.restore(); None }
    }
}
fn name(op: Op) -> &'static str {
    match op { Op::PushA => "push(a)", Op::PushB => "push(b)", Op::Pop => "pop", Op::Snap => "snapshot", Op::Clear => "clear_snapshot", Op::Restore => "restore" }
}
/// Some(index of first disagreeing op) or None.
fn run(seq: &[Op]) -> Option<usize> {
    let mut real: Stack<u8> = Stack::new();
    let mut m = Model::default();
    for (i, &op) in seq.iter().enumerate() {
        // the runtime crate never closes a snapshot it did not open (restore_on_none / predicates are LIFO)
        if (op == Op::Clear || op == Op::Restore) && m.snaps.is_empty() { return None; }
        let a = apply_real(&mut real, op);
        let b = m.apply(op);
        let same = a == b && real.len() == m.cur.len() && real[0..real.len()] == m.cur[..] && real.peek().copied() == m.cur.last().copied();
        if !same { return Some(i); }
        // Index<Range<usize>> (used by the slice nodes): every sub-range of the current contents
        for a in 0..=m.cur.len() { for b in a..=m.cur.len() { if real[a..b] != m.cur[a..b] { return Some(i); } } }
    }
    None
}
fn depth_ok(seq: &[Op], maxdepth: usize) -> bool {
    let mut d = 0usize;
    for &op in seq { match op { Op::Snap => { d += 1; if d > maxdepth { return false; } } Op::Clear | Op::Restore => { if d > 0 { d -= 1; } } _ => {} } }
    true
}
fn enumerate(len: usize, maxdepth: usize) -> (u64, Vec<Vec<Op>>) {
    let mut count = 0u64;
    let mut fails = Vec::new();
    let mut idx = vec![0usize; len];
    loop {
        let seq: Vec<Op> = idx.iter().map(|&i| OPS[i]).collect();
        if depth_ok(&seq, maxdepth) {
            count += 1;
            if let Some(k) = run(&seq) { if k == len - 1 { fails.push(seq); } }
        }
        let mut p = len;
        loop {
            if p == 0 { return (count, fails); }
            p -= 1;
            idx[p] += 1;
            if idx[p] < OPS.len() { break; }
            idx[p] = 0;
        }
    }
}
fn show(seq: &[Op]) -> String { seq.iter().map(|&o| name(o)).collect::<Vec<_>>().join(",") }

#[test]
fn nb_stack_depth1() {
    // snapshot nesting depth <= 1: all sequences up to 8 operations
    let mut total = 0u64;
    for len in 1..=8 {
        let (c, fails) = enumerate(len, 1);
        total += c;
        if let Some(f) = fails.first() {
            println!("NB-RESULT name=nb_stack_depth1 status=fail cases={} key={} detail=first minimal failing sequence", total, show(f));
            return;
        }
    }
    println!("NB-RESULT name=nb_stack_depth1 status=ok cases={} key=- detail=all op sequences of length<=8 with snapshot nesting depth<=1", total);
}

#[test]
fn nb_stack_nested() {
    // arbitrary nesting: all sequences up to 7 operations; reports the minimal failing sequences
    let mut total = 0u64;
    for len in 1..=7 {
        let (c, fails) = enumerate(len, usize::MAX);
        total += c;
        if !fails.is_empty() {
            // canonical key: the failing sequences of minimal length with push(b) folded into push(a)
            let mut keys: Vec<String> = fails.iter().map(|f| show(f).replace("push(b)", "push(a)")).collect();
            keys.sort(); keys.dedup();
            println!("NB-RESULT name=nb_stack_nested status=fail cases={} key={} detail=minimal failing sequences (length {}): {}", total, keys.join("|"), len, keys.len());
            return;
        }
    }
    println!("NB-RESULT name=nb_stack_nested status=ok cases={} key=- detail=all op sequences of length<=7", total);
}
