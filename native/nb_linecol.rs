// nb_linecol — C12: Position::line_col / line_of agree with pest::Position.  Bounded native enumeration:
// every string of at most L characters over {LF, CR, a, é (2 bytes), € (3 bytes), 😀 (4 bytes)} and every
// character-boundary offset.  The contract checked is the property itself:
//   pest_typed::Position::new(s,p).line_col() == pest::Position::new(s,p).line_col()   (same for line_of).
use pest_typed::Position;

const ALPHA: [&str; 6] = ["\n", "\r", "a", "é", "€", "😀"];
fn bound() -> usize { std::env::var("VERIF_NB_L").ok().and_then(|x| x.parse().ok()).unwrap_or(6) }

fn rec(s: &mut String, left: usize, cases: &mut u64, fail: &mut Option<String>) {
    if fail.is_some() { return; }
    for p in 0..=s.len() {
        if !s.is_char_boundary(p) { continue; }
        *cases += 1;
        let ours = Position::new(s, p).unwrap();
        let theirs = pest::Position::new(s, p).unwrap();
        let a = std::panic::catch_unwind(std::panic::AssertUnwindSafe(|| (ours.line_col(), ours.line_of().to_owned())));
        let b = (theirs.line_col(), theirs.line_of().to_owned());
        match a {
            Ok(a) if a == b => {}
            Ok(a) => { *fail = Some(format!("s={:?},pos={} detail=pest_typed {:?} vs pest {:?}", s, p, a, b)); return; }
            Err(_) => { *fail = Some(format!("s={:?},pos={} detail=panic (pest returns {:?})", s, p, b)); return; }
        }
    }
    if left == 0 { return; }
    for a in ALPHA.iter() {
        let n = s.len();
        s.push_str(a);
        rec(s, left - 1, cases, fail);
        s.truncate(n);
    }
}

#[test]
fn nb_linecol() {
    let l = bound();
    let mut cases = 0u64;
    let mut fail = None;
    rec(&mut String::new(), l, &mut cases, &mut fail);
    match fail {
        Some(f) => println!("NB-RESULT name=nb_linecol status=fail cases={} key={}", cases, f),
        None => println!("NB-RESULT name=nb_linecol status=ok cases={} key=- detail=all strings of <= {} chars over {{LF,CR,a,é,€,😀}} x all boundary offsets: line_col and line_of equal pest's", cases, l),
    }
}
