// nb_linecol — C12: Position::line_col / line_of agree with pest::Position.  Bounded native enumeration:
// every string of at most L characters over {LF, CR, a, é (2 bytes), € (3 bytes), 😀 (4 bytes)} and every
// character-boundary offset.  The contract checked is the property itself:
//   pest_typed::Position::new(s,p).line_col() == pest::Position::new(s,p).line_col()   (same for line_of).
use pest_typed::{Input, Position};

const ALPHA: [&str; 6] = ["\n", "\r", "a", "é", "€", "😀"];
fn bound() -> usize { std::env::var("VERIF_NB_L").ok().and_then(|x| x.parse().ok()).unwrap_or(6) }

fn rec(s: &mut String, left: usize, cases: &mut u64, fail: &mut Option<String>) {
    if fail.is_some() { return; }
    for p in 0..=s.len() {
        if !s.is_char_boundary(p) { continue; }
        *cases += 1;
        let ours = Position::new(s, p).unwrap();
        let theirs = pest::Position::new(s, p).unwrap();
        let a = std::panic::catch_unwind(std::panic::AssertUnwindSafe(|| (ours.line_col(), ours.line_of().to_owned())));
        let b = (theirs.line_col(), theirs.line_of().to_owned());
        match a {
            Ok(a) if a == b => {}
            Ok(a) => { *fail = Some(format!("s={:?},pos={} detail=pest_typed {:?} vs pest {:?}", s, p, a, b)); return; }
            Err(_) => { *fail = Some(format!("s={:?},pos={} detail=panic (pest returns {:?})", s, p, b)); return; }
        }
    }
    // positions ADVANCED through the public cursor API (Input::skip / Input::next) are the positions n characters further
    if s.chars().count() <= 4 {
        for p in 0..=s.len() {
            if !s.is_char_boundary(p) { continue; }
            for n in 0..4usize {
                *cases += 1;
                let mut ours = Position::new(s, p).unwrap();
                let ok = Input::skip(&mut ours, n);
                let want = s[p..].char_indices().nth(n).map(|(i, _)| p + i).or(if s[p..].chars().count() == n { Some(s.len()) } else { None });
                let got = if ok { Some(Input::byte_offset(&ours)) } else { None };
                if got != want { *fail = Some(format!("s={:?},pos={},skip={} detail=Input::skip moved to {:?}, {} characters further is {:?}", s, p, n, got, n, want)); return; }
                if let Some(w) = want { if ours.line_col() != pest::Position::new(s, w).unwrap().line_col() { *fail = Some(format!("s={:?},pos={},skip={} detail=line_col after skip differs from pest", s, p, n)); return; } }
            }
            let mut ours = Position::new(s, p).unwrap();
            let c = Input::next(&mut ours);
            if c != s[p..].chars().next() || Input::byte_offset(&ours) != p + c.map_or(0, |c| c.len_utf8()) { *fail = Some(format!("s={:?},pos={} detail=Input::next returned {:?} and moved to {}", s, p, c, Input::byte_offset(&ours))); return; }
        }
    }
    if left == 0 { return; }
    for a in ALPHA.iter() {
        let n = s.len();
        s.push_str(a);
        rec(s, left - 1, cases, fail);
        s.truncate(n);
    }
}

#[test]
fn nb_linecol() {
    let l = bound();
    let mut cases = 0u64;
    let mut fail = None;
    rec(&mut String::new(), l, &mut cases, &mut fail);
    match fail {
        Some(f) => println!("NB-RESULT name=nb_linecol status=fail cases={} key={}", cases, f),
        None => println!("NB-RESULT name=nb_linecol status=ok cases={} key=- detail=all strings of <= {} chars over {{LF,CR,a,é,€,😀}} x all boundary offsets: line_col and line_of equal pest's; positions advanced by Input::skip(n<4) / Input::next from every offset (strings<=4 chars)", cases, l),
    }
}
