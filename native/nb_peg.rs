// nb_peg — bounded native enumeration of parse == check == PEG denotation for the grammars of peg_common
// (the same comparison function the Kani harnesses use), over every string up to L characters of an alphabet.
// Covers what is outside Verus: parse paths of sequences / repetitions, _ALL / slice stack nodes, and runs
// the unerased (tracker-carrying) code.  Labelled bounded; never counted as a discharged obligation.
#![allow(unused, non_camel_case_types)]
pub use pest_typed::*;
include!("/verif/kani/refpeg.rs");
include!("/verif/kani/peg_common.rs");
use pegc::*;

fn strings(alpha: &[&str], max: usize) -> Vec<String> {
    let mut out = vec![String::new()];
    let mut cur = vec![String::new()];
    for _ in 0..max {
        let mut next = Vec::new();
        for s in &cur { for a in alpha { let mut t = s.clone(); t.push_str(a); next.push(t); } }
        out.extend(next.iter().cloned());
        cur = next;
    }
    out
}
/// run one grammar over all strings; returns (cases, accepted, first failure)
fn sweep<F: Fn(&str) -> Result<Option<usize>, &'static str>>(name: &str, alpha: &[&str], max: usize, f: F) -> bool {
    let mut cases = 0u64;
    let mut acc = 0u64;
    for s in strings(alpha, max) {
        cases += 1;
        match std::panic::catch_unwind(std::panic::AssertUnwindSafe(|| f(&s))) {
            Ok(Ok(Some(_))) => acc += 1,
            Ok(Ok(None)) => {}
            Ok(Err(why)) => { println!("NB-RESULT name={} status=fail cases={} key=input={:?} detail={}", name, cases, s, why); return false; }
            Err(_) => { println!("NB-RESULT name={} status=fail cases={} key=input={:?} detail=C09: panic", name, cases, s); return false; }
        }
    }
    if acc == 0 || acc == cases { println!("NB-RESULT name={} status=undecided cases={} key=- detail=vacuous sweep: {} of {} inputs accepted", name, cases, acc, cases); return false; }
    println!("NB-RESULT name={} status=ok cases={} key=- detail=all strings of <= {} chars over {:?}; {} accepted", name, cases, max, alpha, acc);
    true
}
const AB_: [&str; 3] = ["a", "b", " "];
const AB: [&str; 2] = ["a", "b"];

#[test] fn nb_peg_seq3() { sweep("nb_peg_seq3", &AB_, 8, |s| cmp::<GSeq3, XSeq3>(s)); }
#[test] fn nb_peg_seq2_atomic() { sweep("nb_peg_seq2_atomic", &AB_, 7, |s| cmp::<GSeq2A, XSeq2A>(s)); }
#[test] fn nb_peg_rep12() { sweep("nb_peg_rep12", &AB_, 8, |s| cmp::<GRep12, XRep12>(s)); }
#[test] fn nb_peg_rep_choice() { sweep("nb_peg_rep_choice", &AB_, 8, |s| cmp::<GRepCh, XRepCh>(s)); }
#[test] fn nb_peg_push_pop() { sweep("nb_peg_push_pop", &AB, 8, |s| cmp::<GPushPop<'_>, XPushPop>(s)); }
#[test] fn nb_peg_pred() { sweep("nb_peg_pred", &AB, 8, |s| cmp::<GPred<'_>, XPred>(s)); }
#[test] fn nb_peg_d1() { sweep("nb_peg_d1", &AB, 6, |s| cmp::<GD1<'_>, XD1>(s)); }
#[test] fn nb_peg_slice() { sweep("nb_peg_slice", &AB, 9, |s| cmp::<GSlice<'_>, XSlice>(s)); }
#[test] fn nb_peg_leaf() { sweep("nb_peg_leaf", &["a", "B", "*", "/", "\r", "\n", "é", "😀"], 5, |s| cmp::<GLeaf<'_>, XLeaf>(s)); }
#[test] fn nb_peg_nest() { sweep("nb_peg_nest", &AB_, 8, |s| cmp::<GNest, XNest>(s)); }
