// nb_peg — bounded native enumeration of parse == check == PEG denotation for the grammars of peg_common
// (the same comparison function the Kani harnesses use), over every string up to L characters of an alphabet.
// Covers what is outside Verus: parse paths of sequences / repetitions, _ALL / slice stack nodes, and runs
// the unerased (tracker-carrying) code.  Labelled bounded; never counted as a discharged obligation.
#![allow(unused, non_camel_case_types)]
pub use pest_typed::*;
include!("/verif/kani/refpeg.rs");
include!("/verif/kani/peg_common.rs");
use pegc::*;

fn strings(alpha: &[&str], max: usize) -> Vec<String> {
    let mut out = vec![String::new()];
    let mut cur = vec![String::new()];
    for _ in 0..max {
        let mut next = Vec::new();
        for s in &cur { for a in alpha { let mut t = s.clone(); t.push_str(a); next.push(t); } }
        out.extend(next.iter().cloned());
        cur = next;
    }
    out
}
/// run one grammar over all strings; returns (cases, accepted, first failure)
fn extra() -> usize { std::env::var("VERIF_NB_EXTRA").ok().and_then(|x| x.parse().ok()).unwrap_or(0) }
fn sweep<F: Fn(&str) -> Result<Option<usize>, &'static str>>(name: &str, alpha: &[&str], max: usize, f: F) -> bool {
    let max = max + extra();
    let mut cases = 0u64;
    let mut acc = 0u64;
    for s in strings(alpha, max) {
        cases += 1;
        match std::panic::catch_unwind(std::panic::AssertUnwindSafe(|| f(&s))) {
            Ok(Ok(Some(_))) => acc += 1,
            Ok(Ok(None)) => {}
            Ok(Err(why)) => { println!("NB-RESULT name={} status=fail cases={} key=input={:?} detail={}", name, cases, s, why); return false; }
            Err(_) => { println!("NB-RESULT name={} status=fail cases={} key=input={:?} detail=C09: panic", name, cases, s); return false; }
        }
    }
    if acc == 0 || acc == cases { println!("NB-RESULT name={} status=undecided cases={} key=- detail=vacuous sweep: {} of {} inputs accepted", name, cases, acc, cases); return false; }
    println!("NB-RESULT name={} status=ok cases={} key=- detail=all strings of <= {} chars over {:?}; {} accepted", name, cases, max, alpha, acc);
    true
}
const AB_: [&str; 3] = ["a", "b", " "];
const AB: [&str; 2] = ["a", "b"];

#[test] fn nb_peg_seq3() { sweep("nb_peg_seq3", &AB_, 8, |s| cmp::<GSeq3, XSeq3>(s)); }
#[test] fn nb_peg_seq2_atomic() { sweep("nb_peg_seq2_atomic", &AB_, 7, |s| cmp::<GSeq2A, XSeq2A>(s)); }
#[test] fn nb_peg_rep12() { sweep("nb_peg_rep12", &AB_, 8, |s| cmp::<GRep12, XRep12>(s)); }
#[test] fn nb_peg_rep_choice() { sweep("nb_peg_rep_choice", &AB_, 8, |s| cmp::<GRepCh, XRepCh>(s)); }
#[test] fn nb_peg_push_pop() { sweep("nb_peg_push_pop", &AB, 8, |s| cmp::<GPushPop<'_>, XPushPop>(s)); }
#[test] fn nb_peg_pred() { sweep("nb_peg_pred", &AB, 8, |s| cmp::<GPred<'_>, XPred>(s)); }
#[test] fn nb_peg_d1() { sweep("nb_peg_d1", &AB, 6, |s| cmp::<GD1<'_>, XD1>(s)); }
#[test] fn nb_peg_slice() { sweep("nb_peg_slice", &AB, 9, |s| cmp::<GSlice<'_>, XSlice>(s)); }
#[test] fn nb_peg_leaf() { sweep("nb_peg_leaf", &["a", "B", "*", "/", "\r", "\n", "é", "😀"], 5, |s| cmp::<GLeaf<'_>, XLeaf>(s)); }
const ABC: [&str; 3] = ["a", "b", "c"];
#[test] fn nb_peg_bal() { sweep("nb_peg_bal", &ABC, 7, |s| cmp::<GBal<'_>, XBal>(s)); }
#[test] fn nb_peg_optpush() { sweep("nb_peg_optpush", &ABC, 7, |s| cmp::<GOptPush<'_>, XOptPush>(s)); }
#[test] fn nb_peg_reppush() { sweep("nb_peg_reppush", &ABC, 8, |s| cmp::<GRepPush<'_>, XRepPush>(s)); }
#[test] fn nb_peg_repbal() { sweep("nb_peg_repbal", &ABC, 8, |s| cmp::<GRepBal<'_>, XRepBal>(s)); }
#[test] fn nb_peg_predmut() { sweep("nb_peg_predmut", &ABC, 6, |s| cmp::<GPredMut<'_>, XPredMut>(s)); }
#[test] fn nb_peg_repminfail() { sweep("nb_peg_repminfail", &ABC, 8, |s| cmp::<GRepMinFail<'_>, XRepMinFail>(s)); }
#[test] fn nb_peg_repmmfail() { sweep("nb_peg_repmmfail", &ABC, 8, |s| cmp::<GRepMMFail<'_>, XRepMMFail>(s)); }
#[test] fn nb_peg_repnoprogress() { sweep("nb_peg_repnoprogress", &ABC, 7, |s| cmp::<GRepNoProgress<'_>, XRepNoProgress>(s)); }
#[test] fn nb_peg_repnullable() { sweep("nb_peg_repnullable", &ABC, 7, |s| cmp::<GRepNullable<'_>, XRepNullable>(s)); }
#[test] fn nb_peg_skippush() { sweep("nb_peg_skippush", &ABC, 7, |s| cmp::<GSkipPush<'_>, XSkipPush>(s)); }
#[test] fn nb_peg_repasskip() { sweep("nb_peg_repasskip", &AB_, 8, |s| cmp::<GRepAsSkip, XRepAsSkip>(s)); }
/// the same comparison on every sub-range of every string, given as a Span sub-input (the bytes beyond the end must not matter)
fn sweep_sub<F: Fn(&str, usize, usize) -> Result<Option<usize>, &'static str>>(name: &str, alpha: &[&str], max: usize, f: F) -> bool {
    let mut cases = 0u64;
    for s in strings(alpha, max) {
        for a in 0..=s.len() { for b in a..=s.len() {
            if !(s.is_char_boundary(a) && s.is_char_boundary(b)) { continue; }
            cases += 1;
            match std::panic::catch_unwind(std::panic::AssertUnwindSafe(|| f(&s, a, b))) {
                Ok(Ok(_)) => {}
                Ok(Err(why)) => { println!("NB-RESULT name={} status=fail cases={} key=input={:?},span={}..{} detail={}", name, cases, s, a, b, why); return false; }
                Err(_) => { println!("NB-RESULT name={} status=fail cases={} key=input={:?},span={}..{} detail=C09: panic", name, cases, s, a, b); return false; }
            }
        } }
    }
    println!("NB-RESULT name={} status=ok cases={} key=- detail=all strings of <= {} chars over {:?} x all sub-ranges given as Span sub-inputs", name, cases, max, alpha);
    true
}
fn at<'i, G: TypedNode<'i, Rule>, X: RN>(s: &'i str, a: usize, b: usize) -> Result<Option<usize>, &'static str> {
    cmp_at::<G, X, _>(Span::new(s, a, b).unwrap().as_input(), s, a, b)
}
#[test] fn nb_peg_sub() {
    let ok = sweep_sub("nb_peg_sub", &AB_, 6, |s, a, b| at::<GSeq3, XSeq3>(s, a, b).and_then(|_| at::<GRep12, XRep12>(s, a, b)).and_then(|_| at::<GRepCh, XRepCh>(s, a, b))
        .and_then(|_| at::<GRepAsSkip, XRepAsSkip>(s, a, b)).and_then(|_| at::<GPushPop<'_>, XPushPop>(s, a, b)).and_then(|_| at::<GSlice<'_>, XSlice>(s, a, b)).and_then(|_| at::<GNest, XNest>(s, a, b)));
    let _ = ok;
}
#[test] fn nb_peg_nest() { sweep("nb_peg_nest", &AB_, 8, |s| cmp::<GNest, XNest>(s)); }

// ---- C17: repetition iterators yield the iterations in input order ------------------------------------------------
#[test]
fn nb_acc_rep() {
    type G<'i> = RepMin<Choice2<A, B>, WS, 1, 0>;            // (a | b)* with skips
    type H<'i> = RepMinMax<Insens<'i, LAB>, WS, 1, 0, 3>;     // ^"ab"{0,3}
    let mut cases = 0u64;
    for s in strings(&["a", "b", " ", "B"], 7) {
        cases += 1;
        let input = Position::from_start(&s);
        let mut st = Stack::new();
        let mut tr = Tracker::<Rule>::new(input);
        if let Some((end, g)) = <G<'_> as TypedNode<Rule>>::try_parse_partial_with(input, &mut st, &mut tr) {
            // the matched letters, in order, are the non-space characters of the consumed prefix
            let want: Vec<char> = s[..end.byte_offset()].chars().filter(|c| *c != ' ').collect();
            let got: Vec<char> = g.iter_matched().map(|c| if c._0().is_some() { 'a' } else { 'b' }).collect();
            let got_all: Vec<char> = g.iter_all().map(|sk| if sk.matched._0().is_some() { 'a' } else { 'b' }).collect();
            let n_all = g.iter_all().count();
            let got_into: Vec<char> = g.clone().into_iter_matched().map(|c| if c._0().is_some() { 'a' } else { 'b' }).collect();
            if got != want || got_into != want || got_all != want || n_all != want.len() || g.content.len() != want.len() {
                println!("NB-RESULT name=nb_acc_rep status=fail cases={} key=input={:?} detail=iter_matched {:?}, expected {:?}", cases, s, got, want); return;
            }
        }
        let mut st = Stack::new();
        let mut tr = Tracker::<Rule>::new(input);
        if let Some((end, h)) = <H<'_> as TypedNode<Rule>>::try_parse_partial_with(input, &mut st, &mut tr) {
            // the spellings, concatenated with the skipped blanks, are the consumed text
            let spell: String = h.iter_matched().map(|i| i.content).collect();
            let want: String = s[..end.byte_offset()].chars().filter(|c| *c != ' ').collect();
            if spell != want || h.iter_matched().count() > 3 { println!("NB-RESULT name=nb_acc_rep status=fail cases={} key=input={:?} detail=spellings {:?}, expected {:?}", cases, s, spell, want); return; }
        }
    }
    println!("NB-RESULT name=nb_acc_rep status=ok cases={} key=- detail=iter_matched / into_iter_matched / iter_all in input order for (a|b)* and ^\"ab\"{{0,3}} on all strings<=7 chars over {{a,b,B,space}}", cases);
}

// ---- C18: results are deterministic values, stable under clone / eq / hash ------------------------------------------
fn hash_of<T: std::hash::Hash>(t: &T) -> u64 { use std::hash::Hasher; let mut h = std::collections::hash_map::DefaultHasher::new(); t.hash(&mut h); h.finish() }
fn det<'i, G: TypedNode<'i, Rule> + std::hash::Hash + std::fmt::Debug>(s: &'i str, a: usize, b: usize) -> Option<(G, usize)> {
    let span = Span::new(s, a, b)?;
    let input = span.as_input();
    let mut st = Stack::new();
    let mut tr = Tracker::<Rule>::new(input);
    G::try_parse_partial_with(input, &mut st, &mut tr).map(|(i, g)| (g, i.byte_offset()))
}
fn det_check<'i, G: TypedNode<'i, Rule> + std::hash::Hash + std::fmt::Debug>(s: &'i str, cases: &mut u64) -> Result<(), String> {
    let bs: Vec<usize> = (0..=s.len()).filter(|&i| s.is_char_boundary(i)).collect();
    let mut results = Vec::new();
    for &a in &bs { for &b in &bs { if a <= b {
        *cases += 1;
        // interleave other parses between the two runs: no state is kept between calls
        let r1 = det::<G>(s, a, b);
        let _ = det::<G>(s, 0, s.len());
        let r2 = det::<G>(s, a, b);
        match (&r1, &r2) {
            (None, None) => {}
            (Some((g1, o1)), Some((g2, o2))) => {
                if !(g1 == g2 && o1 == o2 && hash_of(g1) == hash_of(g2)) { return Err(format!("input={:?},span={}..{} detail=two parses of the same input differ", s, a, b)); }
                let c = g1.clone();
                if !(c == *g1 && hash_of(&c) == hash_of(g1) && format!("{:?}", c) == format!("{:?}", g1)) { return Err(format!("input={:?},span={}..{} detail=clone differs from original", s, a, b)); }
            }
            _ => return Err(format!("input={:?},span={}..{} detail=verdict differs between two parses", s, a, b)),
        }
        if let Some((g, _)) = r1 { results.push(((a, b), g)); }
    } } }
    // results from different sub-ranges of one string: equal exactly when structurally identical (same Debug)
    for (k1, g1) in &results { for (k2, g2) in &results {
        *cases += 1;
        let same_dbg = format!("{:?}", g1) == format!("{:?}", g2);
        if (g1 == g2) != same_dbg { return Err(format!("input={:?},spans={:?},{:?} detail=eq {} but Debug-equal {}", s, k1, k2, g1 == g2, same_dbg)); }
        if g1 == g2 && hash_of(g1) != hash_of(g2) { return Err(format!("input={:?},spans={:?},{:?} detail=equal values hash differently", s, k1, k2)); }
    } }
    Ok(())
}
#[test]
fn nb_determinism() {
    let mut cases = 0u64;
    for s in strings(&["a", "b", " "], 5) {
        let r = det_check::<GSeq3>(&s, &mut cases)
            .and_then(|_| det_check::<GRepCh>(&s, &mut cases))
            .and_then(|_| det_check::<GPushPop<'_>>(&s, &mut cases))
            .and_then(|_| det_check::<GNest>(&s, &mut cases))
            .and_then(|_| det_check::<GChoiceLit>(&s.replace(' ', "c"), &mut cases))
            .and_then(|_| det_check::<Seq2<S0<pest_typed::predefined_node::unicode::LETTER>, S0<pest_typed::predefined_node::ASCII_HEX_DIGIT>>>(&s.replace(' ', "c"), &mut cases));
        if let Err(e) = r { println!("NB-RESULT name=nb_determinism status=fail cases={} key={}", cases, e); return; }
    }
    println!("NB-RESULT name=nb_determinism status=ok cases={} key=- detail=6 grammars (one of choices over string literals, one of a Unicode property node and a built-in choice) x all strings<=5 chars over {{a,b,space|c}} x all sub-ranges: repeated parse, clone, ==, hash, Debug", cases);
}

// ---- C17: the built-in choice rules report the alternative pest's definition gives ------------------------------------------------
#[test]
fn nb_builtin_alternatives() {
    let mut cases = 0u64;
    fn p<'i, G: TypedNode<'i, Rule>>(s: &'i str) -> Option<G> {
        let input = Position::from_start(s); let mut st = Stack::new(); let mut tr = Tracker::<Rule>::new(input);
        G::try_parse_partial_with(input, &mut st, &mut tr).map(|x| x.1)
    }
    for c in (0u8..128).map(|b| b as char).chain(['é', 'Σ', '٣']) {
        cases += 1;
        let s = c.to_string();
        // pest: ASCII_HEX_DIGIT = '0'..'9' | 'a'..'f' | 'A'..'F';  ASCII_ALPHA = 'a'..'z' | 'A'..'Z';  ASCII_ALPHANUMERIC = ASCII_ALPHA | ASCII_DIGIT
        let want_hex = if c.is_ascii_digit() { Some(0) } else if ('a'..='f').contains(&c) { Some(1) } else if ('A'..='F').contains(&c) { Some(2) } else { None };
        let got_hex = p::<ASCII_HEX_DIGIT>(&s).map(|n| if n._0().is_some() { 0 } else if n._1().is_some() { 1 } else { 2 });
        let want_al = if c.is_ascii_lowercase() { Some(0) } else if c.is_ascii_uppercase() { Some(1) } else { None };
        let got_al = p::<ASCII_ALPHA>(&s).map(|n| if n._0().is_some() { 0 } else { 1 });
        let want_an = if c.is_ascii_alphabetic() { Some(0) } else if c.is_ascii_digit() { Some(1) } else { None };
        let got_an = p::<ASCII_ALPHANUMERIC>(&s).map(|n| if n._0().is_some() { 0 } else { 1 });
        for (name, w, g) in [("ASCII_HEX_DIGIT", want_hex, got_hex), ("ASCII_ALPHA", want_al, got_al), ("ASCII_ALPHANUMERIC", want_an, got_an)] {
            if w != g { println!("NB-RESULT name=nb_builtin_alternatives status=fail cases={} key={},char={:?} detail=alternative reported {:?}, the definition in pest gives {:?}", cases, name, c, g, w); return; }
        }
        let digit = |lo: char, hi: char| if lo <= c && c <= hi { Some(c) } else { None };
        if p::<ASCII_DIGIT>(&s).map(|n| n.content) != digit('0', '9') || p::<ASCII_NONZERO_DIGIT>(&s).map(|n| n.content) != digit('1', '9')
            || p::<ASCII_BIN_DIGIT>(&s).map(|n| n.content) != digit('0', '1') || p::<ASCII_OCT_DIGIT>(&s).map(|n| n.content) != digit('0', '7')
            || p::<ASCII_ALPHA_LOWER>(&s).map(|n| n.content) != digit('a', 'z') || p::<ASCII_ALPHA_UPPER>(&s).map(|n| n.content) != digit('A', 'Z') {
            println!("NB-RESULT name=nb_builtin_alternatives status=fail cases={} key=ascii_range,char={:?} detail=a built-in ASCII range rule accepts / reports something else than its pest definition", cases, c); return;
        }
    }
    println!("NB-RESULT name=nb_builtin_alternatives status=ok cases={} key=- detail=built-in ASCII rules on every ASCII character + 3 others: accepted set, reported character, reported alternative of ASCII_HEX_DIGIT / ASCII_ALPHA / ASCII_ALPHANUMERIC as in the definitions of pest", cases);
}

// ---- C17: leaf nodes expose the text they consumed ------------------------------------------------------------------
#[test]
fn nb_leaf_contents() {
    let alpha = ["a", "B", "b", "é", "λ", "中", "😀", "\r", "\n", "*", "/"];
    let mut cases = 0u64;
    macro_rules! fail { ($s:expr, $($t:tt)*) => {{ println!("NB-RESULT name=nb_leaf_contents status=fail cases={} key=input={:?} detail={}", cases, $s, format!($($t)*)); return; }} }
    fn parse<'i, G: TypedNode<'i, Rule>>(s: &'i str) -> Option<(usize, G)> {
        let input = Position::from_start(s);
        let mut st = Stack::new();
        let mut tr = Tracker::<Rule>::new(input);
        G::try_parse_partial_with(input, &mut st, &mut tr).map(|(i, g)| (i.byte_offset(), g))
    }
    for s in strings(&alpha, 3) {
        cases += 1;
        let first = s.chars().next();
        // range over several scripts, ANY
        match (parse::<CharRange<'a', '\u{ffff}'>>(&s), first) {
            (Some((o, n)), Some(c)) if c >= 'a' && c <= '\u{ffff}' => if n.content != c || o != c.len_utf8() { fail!(s, "CharRange content {:?}, consumed {:?}", n.content, c) },
            (None, Some(c)) if !(c >= 'a' && c <= '\u{ffff}') => {}
            (None, None) => {}
            (r, _) => fail!(s, "CharRange verdict {:?}", r.map(|x| x.0)),
        }
        match (parse::<ANY>(&s), first) {
            (Some((o, n)), Some(c)) => if n.content != c || o != c.len_utf8() { fail!(s, "ANY content {:?}, consumed {:?}", n.content, c) },
            (None, None) => {}
            (r, _) => fail!(s, "ANY verdict {:?}", r.map(|x| x.0)),
        }
        // insensitive literal containing a multi-byte character: content = exactly the consumed text = a spelling of the literal
        match (parse::<Insens<'_, LEB>>(&s), s.as_bytes().starts_with("é".as_bytes()) && s["é".len()..].chars().next().map_or(false, |c| c == 'b' || c == 'B')) {
            (Some((o, n)), true) => if o != "éb".len() || n.content != &s[..o] { fail!(s, "Insens(\"éb\") content {:?}, consumed {:?}", n.content, &s[..o]) },
            (None, false) => {}
            (r, _) => fail!(s, "Insens(\"éb\") verdict {:?}", r.map(|x| x.0)),
        }
        // insensitive: the actual spelling
        if let Some((o, n)) = parse::<Insens<'_, LAB>>(&s) { if n.content != &s[..o] || !n.content.eq_ignore_ascii_case("ab") { fail!(s, "Insens content {:?}, consumed {:?}", n.content, &s[..o]) } }
        // NEWLINE kind
        if let Some((o, n)) = parse::<NEWLINE>(&s) {
            let want = if s.starts_with("\r\n") { NewLineType::CRLF } else if s.starts_with('\n') { NewLineType::LF } else { NewLineType::CR };
            let wlen = if s.starts_with("\r\n") { 2 } else { 1 };
            if n.content != want || o != wlen { fail!(s, "NEWLINE kind {:?} / {} bytes, expected {:?}", n.content, o, want) }
        } else if s.starts_with('\r') || s.starts_with('\n') { fail!(s, "NEWLINE rejected") }
        // skip nodes: span text = text consumed
        if let Some((o, n)) = parse::<Skip<'_, NStar>>(&s) { if n.span.as_str() != &s[..o] { fail!(s, "Skip span {:?}, consumed {:?}", n.span.as_str(), &s[..o]) } }
        if let Some((o, n)) = parse::<SkipChar<'_, 2>>(&s) { if n.span.as_str() != &s[..o] || n.span.as_str().chars().count() != 2 { fail!(s, "SkipChar span {:?}", n.span.as_str()) } }
        // PUSH(ANY) ~ PEEK ~ POP : spans of PEEK / POP are the text they consumed
        type G<'i> = Seq3<S0<Push<ANY>>, S0<PEEK<'i>>, S0<POP<'i>>>;
        if let Some((o, n)) = parse::<G<'_>>(&s) {
            let c = first.unwrap().len_utf8();
            let (_, pk, pp) = n.get_matched();
            if pk.span.as_str() != &s[c..2 * c] || pp.span.as_str() != &s[..c] && pp.span.as_str() != &s[2 * c..3 * c] { fail!(s, "PEEK/POP spans {:?} {:?}", pk.span.as_str(), pp.span.as_str()) }
            if pp.span.as_str() != first.unwrap().to_string() || o != 3 * c { fail!(s, "POP span text {:?}", pp.span.as_str()) }
        }
    }
    println!("NB-RESULT name=nb_leaf_contents status=ok cases={} key=- detail=contents of CharRange / ANY / Insens / NEWLINE / Skip / SkipChar / PEEK / POP on all strings<=3 chars over 10 characters (1-4 bytes, CR, LF)", cases);
}
