// nb_gen — bounded differential check of *generated* parsers against pest itself (placed in derive/tests so
// that both `pest_derive::Parser` and `pest_typed_derive::TypedParser` are available).  One grammar exercising
// every rule kind and operator; every input of at most L characters over the grammar's alphabet; every
// non-silent rule as entry.  It is the only check that has the generator (grammar -> type tree translation,
// atomicity inheritance, SKIP arguments) in the loop, so it stands in — bounded, labelled — for the halves of
// C01/C02/C07 that no contract reaches, and runs the whole unerased pipeline for C03/C04/C08/C09/C10/C15.
#![allow(unused, non_camel_case_types, non_snake_case)]
use pest::Parser as _;
use pest_typed::iterators::{Pair as _, PairTree as _, ThinToken, Token};
use pest_typed::{AsInput, Input, ParsableTypedNode, Position, RuleStruct, Span, Spanned};

macro_rules! grammar { () => { r#"
WHITESPACE = _{ " " }
COMMENT = _{ "/*" ~ (!"*/" ~ ANY)* ~ "*/" }
a = { "a" }
b = { "b" }
seq = { a ~ b ~ a }
seq_atomic = @{ a ~ b }
seq_compound = ${ a ~ b ~ seq? }
seq_nonatomic = !{ a ~ b }
nest = @{ a ~ seq_nonatomic ~ b }
nest2 = ${ a ~ seq_nonatomic ~ seq_atomic? }
rep = { a* ~ b+ }
rep_n = { a{2} ~ b{1,2} ~ a{,1} ~ b{2,} }
choice = { seq | a ~ a | b }
opt = { a? ~ b? ~ "c" }
pred = { &a ~ !(a ~ a) ~ (a | b)+ }
silent = _{ a ~ b }
usesilent = { silent ~ silent? }
stack = { PUSH(a | b) ~ (POP ~ b | PEEK ~ DROP ~ a) }
insens = { ^"ab" ~ ('a'..'b')* }
nl = { (NEWLINE | "c")* ~ b }
soi = { SOI ~ a* ~ EOI }
anyrule = { ANY ~ a? ~ ANY* }
silent_ref = _{ seq }
atomic_via_silent = @{ b ~ silent_ref }
compound_via_silent = ${ silent_ref ~ b }
insens2 = { ^"Éb" ~ a? }
builtin = { ASCII_DIGIT+ ~ LETTER* ~ (EMOJI | ASCII_HEX_DIGIT)? ~ NEWLINE? }
stk2 = { PUSH(a | b) ~ PUSH(b)? ~ (PEEK[-1..] ~ PEEK_ALL | PEEK[0..1] ~ POP_ALL) ~ a? }
pushskip = { PUSH(a ~ b) ~ "c" ~ POP }
deep = @{ a ~ deep_n }
deep_n = { deep_s ~ b? }
deep_s = _{ deep_na | a }
deep_na = !{ a ~ b }
untilc = @{ (!("c" | "*/") ~ ANY)* }
polar = { (!b ~ ANY ~ a) | a ~ a }
notsoi = { (!SOI ~ b)? ~ a+ }
eoipred = { &SOI ~ a ~ (b | &EOI) }
polar2 = { !(a ~ b) ~ a ~ "c" }
tree3 = { usesilent ~ seq ~ rep }
tree4 = { tree3 ~ (tree3 | choice)? }
marker = { &b }
optempty = { a ~ marker? ~ b? ~ (marker | "c")? }
silent_lit = _{ "a" ~ ("b" | NEWLINE)+ ~ ANY? }
oob = { a? ~ "c" ~ (PEEK[-1..] | PEEK[0..2]) ~ ANY* }
until2 = @{ (!("b" | "a" | "*/") ~ ANY)* ~ ("a" | "b")? }
optpush_atomic = @{ PUSH(a) ~ (PUSH(b) ~ "c")? ~ b ~ PEEK? }
optpush = { PUSH(a) ~ (PUSH(b) ~ "c")? ~ b ~ PEEK? ~ (PUSH(a) ~ a)* ~ POP? }
"# } }

mod p {
    #[derive(pest_derive::Parser)]
    #[grammar_inline = r#"
WHITESPACE = _{ " " }
COMMENT = _{ "/*" ~ (!"*/" ~ ANY)* ~ "*/" }
a = { "a" }
b = { "b" }
seq = { a ~ b ~ a }
seq_atomic = @{ a ~ b }
seq_compound = ${ a ~ b ~ seq? }
seq_nonatomic = !{ a ~ b }
nest = @{ a ~ seq_nonatomic ~ b }
nest2 = ${ a ~ seq_nonatomic ~ seq_atomic? }
rep = { a* ~ b+ }
rep_n = { a{2} ~ b{1,2} ~ a{,1} ~ b{2,} }
choice = { seq | a ~ a | b }
opt = { a? ~ b? ~ "c" }
pred = { &a ~ !(a ~ a) ~ (a | b)+ }
silent = _{ a ~ b }
usesilent = { silent ~ silent? }
stack = { PUSH(a | b) ~ (POP ~ b | PEEK ~ DROP ~ a) }
insens = { ^"ab" ~ ('a'..'b')* }
nl = { (NEWLINE | "c")* ~ b }
soi = { SOI ~ a* ~ EOI }
anyrule = { ANY ~ a? ~ ANY* }
silent_ref = _{ seq }
atomic_via_silent = @{ b ~ silent_ref }
compound_via_silent = ${ silent_ref ~ b }
insens2 = { ^"Éb" ~ a? }
builtin = { ASCII_DIGIT+ ~ LETTER* ~ (EMOJI | ASCII_HEX_DIGIT)? ~ NEWLINE? }
stk2 = { PUSH(a | b) ~ PUSH(b)? ~ (PEEK[-1..] ~ PEEK_ALL | PEEK[0..1] ~ POP_ALL) ~ a? }
pushskip = { PUSH(a ~ b) ~ "c" ~ POP }
deep = @{ a ~ deep_n }
deep_n = { deep_s ~ b? }
deep_s = _{ deep_na | a }
deep_na = !{ a ~ b }
untilc = @{ (!("c" | "*/") ~ ANY)* }
polar = { (!b ~ ANY ~ a) | a ~ a }
notsoi = { (!SOI ~ b)? ~ a+ }
eoipred = { &SOI ~ a ~ (b | &EOI) }
polar2 = { !(a ~ b) ~ a ~ "c" }
tree3 = { usesilent ~ seq ~ rep }
tree4 = { tree3 ~ (tree3 | choice)? }
marker = { &b }
optempty = { a ~ marker? ~ b? ~ (marker | "c")? }
silent_lit = _{ "a" ~ ("b" | NEWLINE)+ ~ ANY? }
oob = { a? ~ "c" ~ (PEEK[-1..] | PEEK[0..2]) ~ ANY* }
until2 = @{ (!("b" | "a" | "*/") ~ ANY)* ~ ("a" | "b")? }
optpush_atomic = @{ PUSH(a) ~ (PUSH(b) ~ "c")? ~ b ~ PEEK? }
optpush = { PUSH(a) ~ (PUSH(b) ~ "c")? ~ b ~ PEEK? ~ (PUSH(a) ~ a)* ~ POP? }
"#]
    pub struct P;
}
mod t {
    use pest_typed_derive::TypedParser;
    #[derive(TypedParser)]
    #[grammar_inline = r#"
WHITESPACE = _{ " " }
COMMENT = _{ "/*" ~ (!"*/" ~ ANY)* ~ "*/" }
a = { "a" }
b = { "b" }
seq = { a ~ b ~ a }
seq_atomic = @{ a ~ b }
seq_compound = ${ a ~ b ~ seq? }
seq_nonatomic = !{ a ~ b }
nest = @{ a ~ seq_nonatomic ~ b }
nest2 = ${ a ~ seq_nonatomic ~ seq_atomic? }
rep = { a* ~ b+ }
rep_n = { a{2} ~ b{1,2} ~ a{,1} ~ b{2,} }
choice = { seq | a ~ a | b }
opt = { a? ~ b? ~ "c" }
pred = { &a ~ !(a ~ a) ~ (a | b)+ }
silent = _{ a ~ b }
usesilent = { silent ~ silent? }
stack = { PUSH(a | b) ~ (POP ~ b | PEEK ~ DROP ~ a) }
insens = { ^"ab" ~ ('a'..'b')* }
nl = { (NEWLINE | "c")* ~ b }
soi = { SOI ~ a* ~ EOI }
anyrule = { ANY ~ a? ~ ANY* }
silent_ref = _{ seq }
atomic_via_silent = @{ b ~ silent_ref }
compound_via_silent = ${ silent_ref ~ b }
insens2 = { ^"Éb" ~ a? }
builtin = { ASCII_DIGIT+ ~ LETTER* ~ (EMOJI | ASCII_HEX_DIGIT)? ~ NEWLINE? }
stk2 = { PUSH(a | b) ~ PUSH(b)? ~ (PEEK[-1..] ~ PEEK_ALL | PEEK[0..1] ~ POP_ALL) ~ a? }
pushskip = { PUSH(a ~ b) ~ "c" ~ POP }
deep = @{ a ~ deep_n }
deep_n = { deep_s ~ b? }
deep_s = _{ deep_na | a }
deep_na = !{ a ~ b }
untilc = @{ (!("c" | "*/") ~ ANY)* }
polar = { (!b ~ ANY ~ a) | a ~ a }
notsoi = { (!SOI ~ b)? ~ a+ }
eoipred = { &SOI ~ a ~ (b | &EOI) }
polar2 = { !(a ~ b) ~ a ~ "c" }
tree3 = { usesilent ~ seq ~ rep }
tree4 = { tree3 ~ (tree3 | choice)? }
marker = { &b }
optempty = { a ~ marker? ~ b? ~ (marker | "c")? }
silent_lit = _{ "a" ~ ("b" | NEWLINE)+ ~ ANY? }
oob = { a? ~ "c" ~ (PEEK[-1..] | PEEK[0..2]) ~ ANY* }
until2 = @{ (!("b" | "a" | "*/") ~ ANY)* ~ ("a" | "b")? }
optpush_atomic = @{ PUSH(a) ~ (PUSH(b) ~ "c")? ~ b ~ PEEK? }
optpush = { PUSH(a) ~ (PUSH(b) ~ "c")? ~ b ~ PEEK? ~ (PUSH(a) ~ a)* ~ POP? }
"#]
    pub struct T;
}

#[derive(Clone, Debug, PartialEq, Eq)]
struct Tree { rule: String, start: usize, end: usize, children: Vec<Tree> }
fn from_pest(p: pest::iterators::Pair<'_, p::Rule>) -> Tree {
    let sp = p.as_span();
    Tree { rule: format!("{:?}", p.as_rule()), start: sp.start(), end: sp.end(), children: p.into_inner().map(from_pest).collect() }
}
fn from_thin(t: &ThinToken<t::Rule>) -> Tree {
    Tree { rule: format!("{:?}", t.rule), start: t.start, end: t.end, children: t.children.iter().map(from_thin).collect() }
}
/// the documented difference: descendants of atomic / compound-atomic tokens are not exposed
fn prune(t: &Tree) -> Tree {
    let atomic = ["seq_atomic", "seq_compound", "nest", "nest2", "untilc", "atomic_via_silent", "compound_via_silent", "deep", "optpush_atomic", "until2"].contains(&t.rule.as_str());
    Tree { rule: t.rule.clone(), start: t.start, end: t.end, children: if atomic { vec![] } else { t.children.iter().map(prune).collect() } }
}
fn shift(t: &Tree, d: usize) -> Tree { Tree { rule: t.rule.clone(), start: t.start + d, end: t.end + d, children: t.children.iter().map(|c| shift(c, d)).collect() } }
/// independent trailing-skip computation: blanks and *terminated* comments
fn skip_trailing(s: &str, mut p: usize) -> usize {
    loop {
        if s[p..].starts_with(' ') { p += 1; continue; }
        if s[p..].starts_with("/*") { if let Some(k) = s[p + 2..].find("*/") { p += 2 + k + 2; continue; } }
        return p;
    }
}
/// does rule `name` match a prefix of s[loc..]?  (None: not a rule of the grammar / silent)
fn rule_matches_at(name: &str, s: &str, loc: usize) -> Option<bool> {
    let pos = Position::new(s, loc)?;
    macro_rules! d { ($($r:ident),*) => { match name { $( stringify!($r) => Some(t::pairs::$r::try_check_partial(pos).is_ok()), )* "EOI" => Some(loc == s.len()), _ => None } } }
    d!(builtin, stk2, pushskip, deep, deep_n, deep_na, a, b, seq, seq_atomic, seq_compound, seq_nonatomic, nest, nest2, rep, rep_n, choice, opt, pred, usesilent, stack, insens, nl, soi, anyrule, atomic_via_silent, compound_via_silent, insens2, untilc, polar, notsoi, eoipred, polar2, tree3, tree4, marker, optempty, optpush_atomic, optpush, oob, until2)
}
/// C10 truthfulness: every rule listed as expected fails at the location, every rule listed as unexpected matches there
fn truthful(msg: &str, s: &str, loc: usize) -> Result<(), String> {
    for line in msg.lines() {
        let l = line.trim();
        let lower = l.to_lowercase();
        for (kw, want) in [("unexpected [", true), ("expected [", false)] {
            let mut from = 0;
            while let Some(i) = lower[from..].find(kw) {
                let st = from + i;
                // skip the "expected [" that is the tail of "unexpected ["
                if kw == "expected [" && st >= 2 && &lower[st - 2..st] == "un" { from = st + kw.len(); continue; }
                let lst = st + kw.len();
                let end = match l[lst..].find(']') { Some(e) => lst + e, None => break };
                for name in l[lst..end].split(',').map(|x| x.trim()).filter(|x| !x.is_empty()) {
                    if let Some(m) = rule_matches_at(name, s, loc) {
                        if m != want { return Err(format!("{} is listed as {} at byte {} but it {} there", name, if want { "unexpected" } else { "expected" }, loc, if m { "matches" } else { "does not match" })); }
                    }
                }
                from = end;
            }
        }
    }
    Ok(())
}
fn preorder(t: &Token<'_, t::Rule>, depth: usize, out: &mut Vec<(String, usize, usize, usize)>) {
    out.push((format!("{:?}", t.rule), t.span.start(), t.span.end(), depth));
    for c in &t.children { preorder(c, depth + 1, out); }
}
fn nested_ok(t: &Tree) -> bool {
    let mut last = t.start;
    for c in &t.children {
        if !(c.start >= last && c.end <= t.end && c.start <= c.end && nested_ok(c)) { return false; }
        last = c.end;
    }
    t.start <= t.end
}

macro_rules! check_rule {
    ($name:ident, $atomic:expr, $s:expr, $cases:expr) => {{
        let s: &str = $s;
        *$cases += 1;
        let key = || format!("rule={},input={:?}", stringify!($name), s);
        // ---- pest ----
        let pr = p::P::parse(p::Rule::$name, s);
        let pest_res: Option<(usize, Tree)> = match pr { Ok(mut pairs) => { let top = pairs.next().unwrap(); Some((top.as_span().end(), from_pest(top))) } Err(_) => None };
        // ---- typed, partial ----
        let tp = t::pairs::$name::try_parse_partial(s);
        let tc = t::pairs::$name::try_check_partial(s);
        let typed_res = match &tp { Ok((pos, node)) => Some((pos.pos(), from_thin(&node.as_thin_token()))), Err(_) => None };
        // C01 (incl. generator translation, C07 inheritance): same verdict, same offset as pest
        if pest_res.as_ref().map(|x| x.0) != typed_res.as_ref().map(|x| x.0) {
            return Err(format!("{} detail=C01/C07: pest {:?} vs typed {:?} (verdict/offset)", key(), pest_res.as_ref().map(|x| x.0), typed_res.as_ref().map(|x| x.0)));
        }
        // C02: the pair tree, minus pruning under atomic rules
        if let (Some((_, pt)), Some((_, tt))) = (&pest_res, &typed_res) {
            if prune(pt) != *tt { return Err(format!("{} detail=C02: pair tree differs: pest(pruned) {:?} vs typed {:?}", key(), prune(pt), tt)); }
            if !nested_ok(tt) { return Err(format!("{} detail=C15: spans not nested/ordered {:?}", key(), tt)); }
        }
        // C03: check == parse (verdict, offset, error text)
        match (&tp, &tc) {
            (Ok((pos, _)), Ok(pos2)) => if pos.pos() != pos2.pos() { return Err(format!("{} detail=C03: partial check offset {} vs parse {}", key(), pos2.pos(), pos.pos())); },
            (Err(e1), Err(e2)) => if format!("{}", e1) != format!("{}", e2) { return Err(format!("{} detail=C03: error reports differ between parse and check", key())); },
            _ => return Err(format!("{} detail=C03: partial check and parse disagree on verdict", key())),
        }
        // C10: error location in bounds, on a boundary, rendering does not panic, deterministic
        if let Err(e) = &tp {
            let txt = format!("{}", e);
            let loc = match e.location { pest::error::InputLocation::Pos(p) => p, pest::error::InputLocation::Span((p, _)) => p };
            if !(loc <= s.len() && s.is_char_boundary(loc)) { return Err(format!("{} detail=C10: error location {} out of bounds/off boundary", key(), loc)); }
            if let Err(why) = truthful(&txt, s, loc) { return Err(format!("{} detail=C10: report not truthful: {}", key(), why)); }
            let again = t::pairs::$name::try_parse_partial(s).err().map(|e| format!("{}", e));
            if again.as_deref() != Some(txt.as_str()) { return Err(format!("{} detail=C10: error report differs between two runs", key())); }
        }
        // C04: full parse succeeds iff the prefix parse does and (after the trailing skip unless atomic) the input is exhausted
        let full = t::pairs::$name::try_parse(s);
        let fullc = t::pairs::$name::try_check(s);
        let want_full = match &typed_res { Some((o, _)) => (if $atomic { *o } else { skip_trailing(s, *o) }) == s.len(), None => false };
        if full.is_ok() != want_full { return Err(format!("{} detail=C04: try_parse is_ok={} but prefix offset {:?} / trailing skip says {}", key(), full.is_ok(), typed_res.as_ref().map(|x| x.0), want_full)); }
        if fullc.is_ok() != full.is_ok() { return Err(format!("{} detail=C03: try_check and try_parse disagree", key())); }
        if let (Err(e1), Err(e2)) = (&full, &fullc) { if format!("{}", e1) != format!("{}", e2) { return Err(format!("{} detail=C03: full error reports differ", key())); } }
        if let (Ok(node), Some((_, tt))) = (&full, &typed_res) { if from_thin(&node.as_thin_token()) != *tt { return Err(format!("{} detail=C04: full parse returns a different tree than the prefix parse", key())); } }
        if let Err(e) = &full {
            let loc = match e.location { pest::error::InputLocation::Pos(p) => p, pest::error::InputLocation::Span((p, _)) => p };
            if !(loc <= s.len() && s.is_char_boundary(loc)) { return Err(format!("{} detail=C10: full-parse error location {} out of bounds", key(), loc)); }
            // C10: not before the end of the prefix the rule did match
            if let Some((o, _)) = &typed_res { if loc < *o { return Err(format!("{} detail=C10: error location {} before matched prefix end {}", key(), loc, o)); } }
        }
    }};
}
macro_rules! check_tree {
    ($name:ident, $s:expr, $cases:expr) => {{
        let s: &str = $s;
        let key = || format!("rule={},input={:?}", stringify!($name), s);
        let tp = t::pairs::$name::try_parse_partial(s);
        // C15: traversal helpers on the real tree
        if let Ok((_, node)) = &tp {
            let tok = node.as_token();
            let mut want = Vec::new();
            preorder(&tok, 0, &mut want);
            {
                let mut got = Vec::new();
                let _ = node.iterate_pre_order(|t, d| -> Result<(), ()> { got.push((format!("{:?}", t.rule), t.span.start(), t.span.end(), d)); Ok(()) });
                if got != want { return Err(format!("{} detail=C15: pre-order {:?} vs recursive definition {:?}", key(), got, want)); }
                let mut lv = Vec::new();
                let _ = node.iterate_level_order(|t, _| -> Result<(), ()> { lv.push((format!("{:?}", t.rule), t.span.start(), t.span.end())); Ok(()) });
                let mut by_level: Vec<(usize, (String, usize, usize))> = want.iter().map(|(r, a, b, d)| (*d, (r.clone(), *a, *b))).collect();
                by_level.sort_by_key(|x| x.0);   // stable: keeps pre-order within a level = left to right
                let by_level: Vec<(String, usize, usize)> = by_level.into_iter().map(|x| x.1).collect();
                if lv != by_level { return Err(format!("{} detail=C15: level-order {:?} vs levels {:?}", key(), lv, by_level)); }
                let txt = node.format_as_tree().unwrap();
                let mut exp = String::new();
                for (i, (r, a, b, d)) in want.iter().enumerate() {
                    let leaf = i + 1 >= want.len() || want[i + 1].3 <= *d;
                    if leaf { exp.push_str(&format!("{}{} {:?}\n", "    ".repeat(*d), r, &s[*a..*b])); } else { exp.push_str(&format!("{}{}\n", "    ".repeat(*d), r)); }
                }
                if txt != exp { return Err(format!("{} detail=C15: format_as_tree {:?} vs expected {:?}", key(), txt, exp)); }
            }
            let kids: Vec<(String, usize, usize)> = node.children().iter().map(|c| (format!("{:?}", c.rule), c.span.start(), c.span.end())).collect();
            let want_kids: Vec<(String, usize, usize)> = tok.children.iter().map(|c| (format!("{:?}", c.rule), c.span.start(), c.span.end())).collect();
            if kids != want_kids { return Err(format!("{} detail=C15: children() differ from the token's children", key())); }
        }
    }};
}
/// C08: Span(s,a,b) / Position(s,a) versus a fresh copy of the slice
macro_rules! check_sub {
    ($name:ident, $s:expr, $cases:expr) => {{
        let s: &str = $s;
        let bs: Vec<usize> = (0..=s.len()).filter(|&i| s.is_char_boundary(i)).collect();
        for &a in &bs { for &b in &bs { if a <= b {
            *$cases += 1;
            let key = || format!("rule={},input={:?},span={}..{}", stringify!($name), s, a, b);
            let copy: String = s[a..b].to_owned();
            let on_copy = t::pairs::$name::try_parse_partial(copy.as_str()).ok().map(|(p, n)| (p.pos() + a, shift(&from_thin(&n.as_thin_token()), a)));
            let on_span = t::pairs::$name::try_parse_partial(Span::new(s, a, b).unwrap()).ok().map(|(p, n)| (p.byte_offset(), from_thin(&n.as_thin_token())));
            if on_copy != on_span { return Err(format!("{} detail=C08: Span sub-input {:?} vs fresh copy {:?}", key(), on_span, on_copy)); }
            let full_copy = t::pairs::$name::try_parse(copy.as_str()).is_ok();
            let full_span = t::pairs::$name::try_parse(Span::new(s, a, b).unwrap()).is_ok();
            if full_copy != full_span { return Err(format!("{} detail=C08: full parse on Span {} vs copy {}", key(), full_span, full_copy)); }
            // C03 on sub-inputs: the check entry points agree with the parse entry points (verdict, offset, error text)
            {
                let sp = Span::new(s, a, b).unwrap();
                match (t::pairs::$name::try_parse_partial(sp), t::pairs::$name::try_check_partial(sp)) {
                    (Ok((p1, _)), Ok(p2)) => if p1.byte_offset() != p2.byte_offset() { return Err(format!("{} detail=C03/C08: try_check_partial on Span stops at {} but try_parse_partial at {}", key(), p2.byte_offset(), p1.byte_offset())); },
                    (Err(e1), Err(e2)) => if format!("{}", e1) != format!("{}", e2) { return Err(format!("{} detail=C03/C08: error reports of check and parse differ on Span", key())); },
                    _ => return Err(format!("{} detail=C03/C08: try_check_partial and try_parse_partial disagree on Span", key())),
                }
                match (t::pairs::$name::try_parse(sp), t::pairs::$name::try_check(sp)) {
                    (Ok(_), Ok(())) => {}
                    (Err(e1), Err(e2)) => if format!("{}", e1) != format!("{}", e2) { return Err(format!("{} detail=C03/C08: error reports of full check and full parse differ on Span", key())); },
                    _ => return Err(format!("{} detail=C03/C08: try_check and try_parse disagree on Span", key())),
                }
                let chk_copy = t::pairs::$name::try_check_partial(copy.as_str()).ok().map(|p| p.pos() + a);
                let chk_span = t::pairs::$name::try_check_partial(sp).ok().map(|p| p.byte_offset());
                if chk_copy != chk_span { return Err(format!("{} detail=C08: try_check_partial on Span {:?} vs fresh copy {:?}", key(), chk_span, chk_copy)); }
            }
            if b == s.len() {
                let on_pos = t::pairs::$name::try_parse_partial(Position::new(s, a).unwrap()).ok().map(|(p, n)| (p.byte_offset(), from_thin(&n.as_thin_token())));
                if on_copy != on_pos { return Err(format!("{} detail=C08: Position sub-input {:?} vs fresh copy {:?}", key(), on_pos, on_copy)); }
                let ps = Position::new(s, a).unwrap();
                let chk_pos = t::pairs::$name::try_check_partial(ps).ok().map(|p| p.byte_offset());
                if chk_pos != on_copy.as_ref().map(|x| x.0) { return Err(format!("{} detail=C03/C08: try_check_partial on Position {:?} vs fresh copy {:?}", key(), chk_pos, on_copy.as_ref().map(|x| x.0))); }
                if t::pairs::$name::try_check(ps).is_ok() != full_copy || t::pairs::$name::try_parse(ps).is_ok() != full_copy { return Err(format!("{} detail=C03/C08: full parse/check on Position vs fresh copy {}", key(), full_copy)); }
            }
        } } }
    }};
}

/// C09 / C10 on sub-inputs: the error location of a failed entry point lies within the given range [a, b] on a character boundary
fn loc_in<R: pest_typed::RuleType>(e: &pest_typed::error::Error<R>, s: &str, a: usize, b: usize) -> Result<(), String> {
    let loc = match e.location { pest::error::InputLocation::Pos(p) => p, pest::error::InputLocation::Span((p, _)) => p };
    if !(a <= loc && loc <= b && s.is_char_boundary(loc)) { return Err(format!("error location {} outside the given range {}..{} (or off a boundary)", loc, a, b)); }
    Ok(())
}
/// entry points of a rule on every sub-range: verdicts / offsets agree with a fresh copy, error locations stay inside the range.
/// `$path` is `pairs` for ordinary rules and `rules` for silent ones (no token of their own: no tree comparison).
macro_rules! check_sub_entry {
    ($path:ident, $name:ident, $s:expr, $cases:expr) => {{
        let s: &str = $s;
        let bs: Vec<usize> = (0..=s.len()).filter(|&i| s.is_char_boundary(i)).collect();
        for &a in &bs { for &b in &bs { if a <= b {
            *$cases += 1;
            let key = || format!("entry={}::{},input={:?},span={}..{}", stringify!($path), stringify!($name), s, a, b);
            let copy: String = s[a..b].to_owned();
            let sp = Span::new(s, a, b).unwrap();
            let c_part = t::$path::$name::try_parse_partial(copy.as_str()).ok().map(|(p, _)| p.pos() + a);
            let c_full = t::$path::$name::try_parse(copy.as_str()).is_ok();
            match t::$path::$name::try_parse_partial(sp) { Ok((p, _)) => if Some(p.byte_offset()) != c_part { return Err(format!("{} detail=C08: try_parse_partial on Span stops at {} vs copy {:?}", key(), p.byte_offset(), c_part)); },
                Err(e) => { if c_part.is_some() { return Err(format!("{} detail=C08: try_parse_partial rejects the Span, accepts the copy", key())); } if let Err(w) = loc_in(&e, s, a, b) { return Err(format!("{} detail=C09: try_parse_partial: {}", key(), w)); } } }
            match t::$path::$name::try_check_partial(sp) { Ok(p) => if Some(p.byte_offset()) != c_part { return Err(format!("{} detail=C03/C08: try_check_partial on Span stops at {} vs copy {:?}", key(), p.byte_offset(), c_part)); },
                Err(e) => { if c_part.is_some() { return Err(format!("{} detail=C03/C08: try_check_partial rejects the Span, the copy parses", key())); } if let Err(w) = loc_in(&e, s, a, b) { return Err(format!("{} detail=C09: try_check_partial: {}", key(), w)); } } }
            match t::$path::$name::try_parse(sp) { Ok(_) => if !c_full { return Err(format!("{} detail=C08: try_parse accepts the Span, rejects the copy", key())); },
                Err(e) => { if c_full { return Err(format!("{} detail=C08: try_parse rejects the Span, accepts the copy", key())); } if let Err(w) = loc_in(&e, s, a, b) { return Err(format!("{} detail=C09: try_parse: {}", key(), w)); } } }
            match t::$path::$name::try_check(sp) { Ok(()) => if !c_full { return Err(format!("{} detail=C03/C08: try_check accepts the Span, the copy does not parse", key())); },
                Err(e) => { if c_full { return Err(format!("{} detail=C03/C08: try_check rejects the Span, the copy parses", key())); } if let Err(w) = loc_in(&e, s, a, b) { return Err(format!("{} detail=C09: try_check: {}", key(), w)); } } }
            if b == s.len() {
                let ps = Position::new(s, a).unwrap();
                if let Err(e) = t::$path::$name::try_parse(ps) { if let Err(w) = loc_in(&e, s, a, s.len()) { return Err(format!("{} detail=C09: try_parse on Position: {}", key(), w)); } }
                if let Err(e) = t::$path::$name::try_check_partial(ps) { if let Err(w) = loc_in(&e, s, a, s.len()) { return Err(format!("{} detail=C09: try_check_partial on Position: {}", key(), w)); } }
            }
        } } }
    }};
}
fn strings(alpha: &[&str], max: usize) -> Vec<String> {
    let mut out = vec![String::new()];
    let mut cur = vec![String::new()];
    for _ in 0..max {
        let mut next = Vec::new();
        for s in &cur { for a in alpha { let mut t = s.clone(); t.push_str(a); next.push(t); } }
        out.extend(next.iter().cloned());
        cur = next;
    }
    out
}
fn bound(d: usize) -> usize { std::env::var("VERIF_NB_L").ok().and_then(|x| x.parse().ok()).unwrap_or(d) }

fn all_rules(s: &str, cases: &mut u64) -> Result<(), String> {
    check_rule!(a, false, s, cases);
    check_rule!(seq, false, s, cases);
    check_rule!(seq_atomic, true, s, cases);
    check_rule!(seq_compound, true, s, cases);
    check_rule!(seq_nonatomic, false, s, cases);
    check_rule!(nest, true, s, cases);
    check_rule!(nest2, true, s, cases);
    check_rule!(rep, false, s, cases);
    check_rule!(rep_n, false, s, cases);
    check_rule!(choice, false, s, cases);
    check_rule!(opt, false, s, cases);
    check_rule!(pred, false, s, cases);
    check_rule!(usesilent, false, s, cases);
    check_rule!(stack, false, s, cases);
    check_rule!(insens, false, s, cases);
    check_rule!(nl, false, s, cases);
    check_rule!(soi, false, s, cases);
    check_rule!(untilc, true, s, cases);
    check_rule!(anyrule, false, s, cases);
    check_rule!(atomic_via_silent, true, s, cases);
    check_rule!(compound_via_silent, true, s, cases);
    check_rule!(insens2, false, s, cases);
    check_rule!(builtin, false, s, cases);
    check_rule!(stk2, false, s, cases);
    check_rule!(pushskip, false, s, cases);
    check_rule!(deep, true, s, cases);
    check_rule!(deep_n, false, s, cases);
    check_rule!(deep_na, false, s, cases);
    check_rule!(polar, false, s, cases);
    check_rule!(notsoi, false, s, cases);
    check_rule!(eoipred, false, s, cases);
    check_rule!(polar2, false, s, cases);
    check_rule!(tree3, false, s, cases);
    check_rule!(tree4, false, s, cases);
    check_rule!(marker, false, s, cases);
    check_rule!(optempty, false, s, cases);
    check_rule!(optpush_atomic, true, s, cases);
    check_rule!(optpush, false, s, cases);
    check_rule!(oob, false, s, cases);
    check_rule!(until2, true, s, cases);
    check_tree!(a, s, cases); check_tree!(seq, s, cases); check_tree!(seq_nonatomic, s, cases); check_tree!(rep, s, cases); check_tree!(rep_n, s, cases);
    check_tree!(choice, s, cases); check_tree!(opt, s, cases); check_tree!(pred, s, cases); check_tree!(usesilent, s, cases); check_tree!(stack, s, cases);
    check_tree!(insens, s, cases); check_tree!(nl, s, cases); check_tree!(soi, s, cases); check_tree!(eoipred, s, cases);
    check_tree!(tree3, s, cases); check_tree!(tree4, s, cases); check_tree!(optempty, s, cases); check_tree!(deep_n, s, cases); check_tree!(nl, s, cases);
    Ok(())
}
fn all_sub(s: &str, cases: &mut u64) -> Result<(), String> {
    check_sub!(seq, s, cases);
    check_sub!(nest2, s, cases);
    check_sub!(rep, s, cases);
    check_sub!(stack, s, cases);
    check_sub!(soi, s, cases);
    check_sub!(untilc, s, cases);
    check_sub!(insens, s, cases);
    check_sub!(anyrule, s, cases);
    check_sub!(insens2, s, cases);
    check_sub!(stk2, s, cases);
    check_sub!(deep, s, cases);
    check_sub!(notsoi, s, cases);
    check_sub!(eoipred, s, cases);
    check_sub!(seq_atomic, s, cases);
    check_sub!(compound_via_silent, s, cases);
    check_sub!(until2, s, cases);
    check_sub_entry!(rules, silent, s, cases);
    check_sub_entry!(rules, silent_ref, s, cases);
    check_sub_entry!(rules, deep_s, s, cases);
    check_sub_entry!(rules, silent_lit, s, cases);
    check_sub_entry!(pairs, seq_compound, s, cases);
    check_sub_entry!(pairs, pred, s, cases);
    check_sub_entry!(pairs, optpush_atomic, s, cases);
    Ok(())
}

#[test]
fn nb_gen_vs_pest() {
    let l = bound(5);
    let mut cases = 0u64;
    for s in strings(&["a", "b", " ", "c", "B"], l).iter().chain(strings(&["a", "b", "/", "*", " "], l).iter()).chain(strings(&["a", "b", "\n", "\r", "c", "é", "É", "😀", "1"], l.min(4)).iter()) {
        let r = std::panic::catch_unwind(std::panic::AssertUnwindSafe(|| all_rules(s, &mut cases)));
        match r {
            Ok(Ok(())) => {}
            Ok(Err(e)) => { println!("NB-RESULT name=nb_gen_vs_pest status=fail cases={} key={}", cases, e); return; }
            Err(_) => { println!("NB-RESULT name=nb_gen_vs_pest status=fail cases={} key=input={:?} detail=C09: panic", cases, s); return; }
        }
    }
    println!("NB-RESULT name=nb_gen_vs_pest status=ok cases={} key=- detail=40 rules x all strings<={} chars over 3 alphabets: verdict/offset/tree vs pest, check==parse incl. error text, full parse, error location, traversal helpers", cases, l);
}
#[test]
fn nb_gen_subinput() {
    let l = bound(4);
    let mut cases = 0u64;
    for s in strings(&["a", "b", " ", "c", "é", "😀"], l).iter().chain(strings(&["a", "*", "/", "c"], l).iter()).chain(strings(&["É", "é", "b", "B"], l).iter()) {
        let r = std::panic::catch_unwind(std::panic::AssertUnwindSafe(|| all_sub(s, &mut cases)));
        match r {
            Ok(Ok(())) => {}
            Ok(Err(e)) => { println!("NB-RESULT name=nb_gen_subinput status=fail cases={} key={}", cases, e); return; }
            Err(_) => { println!("NB-RESULT name=nb_gen_subinput status=fail cases={} key=input={:?} detail=C09: panic", cases, s); return; }
        }
    }
    println!("NB-RESULT name=nb_gen_subinput status=ok cases={} key=- detail=22 entry rules (4 of them silent, one made of terminals only) x all strings<={} chars over 3 alphabets x all sub-ranges: Span / Position sub-input vs fresh copy (partial and full, parse and check, offsets and trees), error locations inside the given range", cases, l);
}


// ---- second grammar: NON-silent WHITESPACE / COMMENT (their tokens appear in the pair tree where pest puts them) -------
mod p2 {
    #[derive(pest_derive::Parser)]
    #[grammar_inline = r#"
WHITESPACE = { " " }
COMMENT = { "/*" ~ (!"*/" ~ ANY)* ~ "*/" }
num = @{ ('0'..'1')+ }
pair = { num ~ "," ~ num }
list = { num ~ ("," ~ num)* }
opt = { num? ~ ";" ~ num* }
wrapped = ${ num ~ inner }
inner = !{ num ~ num }
"#]
    pub struct P;
}
mod t2 {
    use pest_typed_derive::TypedParser;
    #[derive(TypedParser)]
    #[grammar_inline = r#"
WHITESPACE = { " " }
COMMENT = { "/*" ~ (!"*/" ~ ANY)* ~ "*/" }
num = @{ ('0'..'1')+ }
pair = { num ~ "," ~ num }
list = { num ~ ("," ~ num)* }
opt = { num? ~ ";" ~ num* }
wrapped = ${ num ~ inner }
inner = !{ num ~ num }
"#]
    pub struct T;
}
fn from_pest2(p: pest::iterators::Pair<'_, p2::Rule>) -> Tree {
    let sp = p.as_span();
    Tree { rule: format!("{:?}", p.as_rule()), start: sp.start(), end: sp.end(), children: p.into_inner().map(from_pest2).collect() }
}
fn from_thin2(t: &ThinToken<t2::Rule>) -> Tree {
    Tree { rule: format!("{:?}", t.rule), start: t.start, end: t.end, children: t.children.iter().map(from_thin2).collect() }
}
fn prune2(t: &Tree) -> Tree {
    let atomic = ["num", "wrapped", "WHITESPACE", "COMMENT"].contains(&t.rule.as_str());
    Tree { rule: t.rule.clone(), start: t.start, end: t.end, children: if atomic { vec![] } else { t.children.iter().map(prune2).collect() } }
}
macro_rules! check_rule2 {
    ($name:ident, $s:expr, $cases:expr) => {{
        let s: &str = $s;
        *$cases += 1;
        let key = || format!("grammar2,rule={},input={:?}", stringify!($name), s);
        let pr = p2::P::parse(p2::Rule::$name, s);
        let pest_res: Option<(usize, Tree)> = match pr { Ok(mut pairs) => { let top = pairs.next().unwrap(); Some((top.as_span().end(), from_pest2(top))) } Err(_) => None };
        let tp = t2::pairs::$name::try_parse_partial(s);
        let typed_res = match &tp { Ok((pos, node)) => Some((pos.pos(), from_thin2(&node.as_thin_token()))), Err(_) => None };
        if pest_res.as_ref().map(|x| x.0) != typed_res.as_ref().map(|x| x.0) {
            return Err(format!("{} detail=C01/C07: pest {:?} vs typed {:?} (verdict/offset)", key(), pest_res.as_ref().map(|x| x.0), typed_res.as_ref().map(|x| x.0)));
        }
        if let (Some((_, pt)), Some((_, tt))) = (&pest_res, &typed_res) {
            if prune2(pt) != *tt { return Err(format!("{} detail=C02: pair tree differs (non-silent skip tokens): pest(pruned) {:?} vs typed {:?}", key(), prune2(pt), tt)); }
            if !nested_ok(tt) { return Err(format!("{} detail=C15: spans not nested/ordered {:?}", key(), tt)); }
        }
    }};
}
fn all_rules2(s: &str, cases: &mut u64) -> Result<(), String> {
    check_rule2!(pair, s, cases);
    check_rule2!(list, s, cases);
    check_rule2!(opt, s, cases);
    check_rule2!(wrapped, s, cases);
    check_rule2!(inner, s, cases);
    Ok(())
}
#[test]
fn nb_gen_skip_tokens() {
    let l = bound(6);
    let mut cases = 0u64;
    for s in strings(&["0", "1", ",", " ", ";"], l).iter().chain(strings(&["1", ",", "/*", "*/", " "], l.min(5)).iter()) {
        let r = std::panic::catch_unwind(std::panic::AssertUnwindSafe(|| all_rules2(s, &mut cases)));
        match r {
            Ok(Ok(())) => {}
            Ok(Err(e)) => { println!("NB-RESULT name=nb_gen_skip_tokens status=fail cases={} key={}", cases, e); return; }
            Err(_) => { println!("NB-RESULT name=nb_gen_skip_tokens status=fail cases={} key=input={:?} detail=C09: panic", cases, s); return; }
        }
    }
    println!("NB-RESULT name=nb_gen_skip_tokens status=ok cases={} key=- detail=grammar with non-silent WHITESPACE/COMMENT: 5 rules x all strings<={} tokens over 2 alphabets: verdict/offset/pair tree incl. skipped tokens vs pest", cases, l);
}


// ---- third grammar: a non-silent COMMENT whose expression mentions a non-silent rule --------------------------------------
mod p3 {
    #[derive(pest_derive::Parser)]
    #[grammar_inline = r#"
WHITESPACE = _{ " " }
COMMENT = { "/*" ~ body ~ "*/" }
body = { (!"*/" ~ ANY)* }
num = @{ ('0'..'1')+ }
list = { num ~ ("," ~ num)* }
"#]
    pub struct P;
}
mod t3 {
    use pest_typed_derive::TypedParser;
    #[derive(TypedParser)]
    #[grammar_inline = r#"
WHITESPACE = _{ " " }
COMMENT = { "/*" ~ body ~ "*/" }
body = { (!"*/" ~ ANY)* }
num = @{ ('0'..'1')+ }
list = { num ~ ("," ~ num)* }
"#]
    pub struct T;
}
#[test]
fn nb_gen_comment_inner() {
    let l = bound(5);
    let mut cases = 0u64;
    for s in strings(&["1", ",", "/*", "*/", " ", "x"], l) {
        cases += 1;
        let pr = p3::P::parse(p3::Rule::list, &s);
        fn fp(p: pest::iterators::Pair<'_, p3::Rule>) -> Tree { let sp = p.as_span(); Tree { rule: format!("{:?}", p.as_rule()), start: sp.start(), end: sp.end(), children: p.into_inner().map(fp).collect() } }
        fn ft(t: &ThinToken<t3::Rule>) -> Tree { Tree { rule: format!("{:?}", t.rule), start: t.start, end: t.end, children: t.children.iter().map(ft).collect() } }
        fn pr3(t: &Tree) -> Tree { let atomic = ["num"].contains(&t.rule.as_str()); Tree { rule: t.rule.clone(), start: t.start, end: t.end, children: if atomic { vec![] } else { t.children.iter().map(pr3).collect() } } }
        let pest_res = match pr { Ok(mut pairs) => { let top = pairs.next().unwrap(); Some((top.as_span().end(), fp(top))) } Err(_) => None };
        let typed_res = t3::pairs::list::try_parse_partial(s.as_str()).ok().map(|(p, n)| (p.pos(), ft(&n.as_thin_token())));
        if pest_res.as_ref().map(|x| x.0) != typed_res.as_ref().map(|x| x.0) { println!("NB-RESULT name=nb_gen_comment_inner status=fail cases={} key=grammar3,rule=list,input={:?} detail=C01: pest {:?} vs typed {:?}", cases, s, pest_res.as_ref().map(|x| x.0), typed_res.as_ref().map(|x| x.0)); return; }
        if let (Some((_, pt)), Some((_, tt))) = (&pest_res, &typed_res) {
            if pr3(pt) != *tt { println!("NB-RESULT name=nb_gen_comment_inner status=fail cases={} key=grammar3,rule=list,input={:?} detail=C02: pest(pruned) {:?} vs typed {:?}", cases, s, pr3(pt), tt); return; }
        }
    }
    println!("NB-RESULT name=nb_gen_comment_inner status=ok cases={} key=- detail=non-silent COMMENT mentioning a non-silent rule: all strings<={} tokens", cases, l);
}

// ---- grammars 4 and 5: ONLY WHITESPACE defined / ONLY COMMENT defined (the generator has a separate arm for each case), with
// skip rules whose own body contains a repetition (which must not skip inside itself: skip rules run atomically) ----------------
mod p4 {
    #[derive(pest_derive::Parser)]
    #[grammar_inline = r#"
WHITESPACE = { " "+ }
word = @{ ('a'..'b')+ }
main = { word ~ word* }
pairr = { word ~ "," ~ word }
atom = ${ word ~ inner4 }
inner4 = !{ word ~ word }
"#]
    pub struct P;
}
mod t4 {
    use pest_typed_derive::TypedParser;
    #[derive(TypedParser)]
    #[grammar_inline = r#"
WHITESPACE = { " "+ }
word = @{ ('a'..'b')+ }
main = { word ~ word* }
pairr = { word ~ "," ~ word }
atom = ${ word ~ inner4 }
inner4 = !{ word ~ word }
"#]
    pub struct T;
}
mod p5 {
    #[derive(pest_derive::Parser)]
    #[grammar_inline = r#"
COMMENT = { "%"+ }
word = @{ ('a'..'b')+ }
main = { word ~ word* }
pairr = { word ~ "," ~ word }
atom = ${ word ~ inner4 }
inner4 = !{ word ~ word }
"#]
    pub struct P;
}
mod t5 {
    use pest_typed_derive::TypedParser;
    #[derive(TypedParser)]
    #[grammar_inline = r#"
COMMENT = { "%"+ }
word = @{ ('a'..'b')+ }
main = { word ~ word* }
pairr = { word ~ "," ~ word }
atom = ${ word ~ inner4 }
inner4 = !{ word ~ word }
"#]
    pub struct T;
}
macro_rules! check_skip_only {
    ($p:ident, $t:ident, $gname:expr, $name:ident, $s:expr, $cases:expr) => {{
        let s: &str = $s;
        *$cases += 1;
        let key = || format!("{},rule={},input={:?}", $gname, stringify!($name), s);
        fn fp(p: pest::iterators::Pair<'_, $p::Rule>) -> Tree { let sp = p.as_span(); Tree { rule: format!("{:?}", p.as_rule()), start: sp.start(), end: sp.end(), children: p.into_inner().map(fp).collect() } }
        fn ft(t: &ThinToken<$t::Rule>) -> Tree { Tree { rule: format!("{:?}", t.rule), start: t.start, end: t.end, children: t.children.iter().map(ft).collect() } }
        fn pr(t: &Tree) -> Tree { let atomic = ["word", "atom", "WHITESPACE", "COMMENT"].contains(&t.rule.as_str()); Tree { rule: t.rule.clone(), start: t.start, end: t.end, children: if atomic { vec![] } else { t.children.iter().map(pr).collect() } } }
        let pest_res: Option<(usize, Tree)> = match $p::P::parse($p::Rule::$name, s) { Ok(mut pairs) => { let top = pairs.next().unwrap(); Some((top.as_span().end(), fp(top))) } Err(_) => None };
        let tp = $t::pairs::$name::try_parse_partial(s);
        let tc = $t::pairs::$name::try_check_partial(s);
        let typed_res = match &tp { Ok((pos, node)) => Some((pos.pos(), ft(&node.as_thin_token()))), Err(_) => None };
        if pest_res.as_ref().map(|x| x.0) != typed_res.as_ref().map(|x| x.0) { return Err(format!("{} detail=C01/C07: pest {:?} vs typed {:?} (verdict/offset)", key(), pest_res.as_ref().map(|x| x.0), typed_res.as_ref().map(|x| x.0))); }
        if tc.as_ref().ok().map(|p| p.pos()) != typed_res.as_ref().map(|x| x.0) { return Err(format!("{} detail=C03: check and parse disagree", key())); }
        if let (Some((_, pt)), Some((_, tt))) = (&pest_res, &typed_res) {
            if pr(pt) != *tt { return Err(format!("{} detail=C02: pair tree differs: pest(pruned) {:?} vs typed {:?}", key(), pr(pt), tt)); }
            if !nested_ok(tt) { return Err(format!("{} detail=C15: spans not nested/ordered {:?}", key(), tt)); }
        }
    }};
}
fn all_rules45(s4: &str, s5: &str, cases: &mut u64) -> Result<(), String> {
    check_skip_only!(p4, t4, "grammar4(WHITESPACE only)", main, s4, cases);
    check_skip_only!(p4, t4, "grammar4(WHITESPACE only)", pairr, s4, cases);
    check_skip_only!(p4, t4, "grammar4(WHITESPACE only)", atom, s4, cases);
    check_skip_only!(p4, t4, "grammar4(WHITESPACE only)", inner4, s4, cases);
    check_skip_only!(p5, t5, "grammar5(COMMENT only)", main, s5, cases);
    check_skip_only!(p5, t5, "grammar5(COMMENT only)", pairr, s5, cases);
    check_skip_only!(p5, t5, "grammar5(COMMENT only)", atom, s5, cases);
    check_skip_only!(p5, t5, "grammar5(COMMENT only)", inner4, s5, cases);
    Ok(())
}
#[test]
fn nb_gen_skip_only() {
    let l = bound(7);
    let mut cases = 0u64;
    for s in strings(&["a", "b", ",", " "], l).iter() {
        let s5 = s.replace(' ', "%");
        let r = std::panic::catch_unwind(std::panic::AssertUnwindSafe(|| all_rules45(s, &s5, &mut cases)));
        match r {
            Ok(Ok(())) => {}
            Ok(Err(e)) => { println!("NB-RESULT name=nb_gen_skip_only status=fail cases={} key={}", cases, e); return; }
            Err(_) => { println!("NB-RESULT name=nb_gen_skip_only status=fail cases={} key=input={:?} detail=C09: panic", cases, s); return; }
        }
    }
    println!("NB-RESULT name=nb_gen_skip_only status=ok cases={} key=- detail=grammars defining ONLY a non-silent WHITESPACE = {{\" \"+}} / ONLY a non-silent COMMENT = {{\"%\"+}}: 4 rules each x all strings<={} chars over {{a,b,comma,blank}}: verdict/offset/pair tree vs pest, check==parse", cases, l);
}

// ---- grammar 6: the generator's UNOPTIMIZED path (`#[pest_optimizer = false]`, generator/src/graph/rule.rs — a mirror of the
// default path in optimized_rule.rs) on the atomicity / skip / stack constructs; reference = pest on the same grammar.
// `e+` is written `e ~ e*` here: with the optimizer off `e+` stops before a trailing skip that pest consumes (finding D8, kept in its
// own test below so that it cannot hide any other disagreement) ----------------
mod p6 {
    #[derive(pest_derive::Parser)]
    #[grammar_inline = r#"
WHITESPACE = _{ " " }
COMMENT = _{ "/*" ~ (!"*/" ~ ANY)* ~ "*/" }
a = { "a" }
b = { "b" }
seq = { a ~ b ~ a }
seq_atomic = @{ a ~ b }
seq_compound = ${ a ~ b ~ seq? }
seq_nonatomic = !{ a ~ b }
nest = @{ a ~ seq_nonatomic ~ b }
nest2 = ${ a ~ seq_nonatomic ~ seq_atomic? }
via_normal = @{ a ~ mid ~ b }
mid = { seq_nonatomic ~ a? }
silent = _{ a ~ b }
atomic_via_silent = @{ b ~ silent }
rep = { a* ~ b ~ b* }
opt = { a? ~ b? ~ "c" }
choice = { seq | a ~ a | b }
pred = { &a ~ !(a ~ a) ~ (a | b) ~ (a | b)* }
stack = { PUSH(a | b) ~ (POP ~ b | PEEK ~ DROP ~ a) }
stk2 = { PUSH(a | b) ~ PUSH(b)? ~ (PEEK[-1..] ~ PEEK_ALL | PEEK[0..1] ~ POP_ALL) ~ a? }
insens = { ^"ab" ~ ('a'..'b')* }
"#]
    pub struct P;
}
mod t6 {
    use pest_typed_derive::TypedParser;
    #[derive(TypedParser)]
    #[grammar_inline = r#"
WHITESPACE = _{ " " }
COMMENT = _{ "/*" ~ (!"*/" ~ ANY)* ~ "*/" }
a = { "a" }
b = { "b" }
seq = { a ~ b ~ a }
seq_atomic = @{ a ~ b }
seq_compound = ${ a ~ b ~ seq? }
seq_nonatomic = !{ a ~ b }
nest = @{ a ~ seq_nonatomic ~ b }
nest2 = ${ a ~ seq_nonatomic ~ seq_atomic? }
via_normal = @{ a ~ mid ~ b }
mid = { seq_nonatomic ~ a? }
silent = _{ a ~ b }
atomic_via_silent = @{ b ~ silent }
rep = { a* ~ b ~ b* }
opt = { a? ~ b? ~ "c" }
choice = { seq | a ~ a | b }
pred = { &a ~ !(a ~ a) ~ (a | b) ~ (a | b)* }
stack = { PUSH(a | b) ~ (POP ~ b | PEEK ~ DROP ~ a) }
stk2 = { PUSH(a | b) ~ PUSH(b)? ~ (PEEK[-1..] ~ PEEK_ALL | PEEK[0..1] ~ POP_ALL) ~ a? }
insens = { ^"ab" ~ ('a'..'b')* }
"#]
    #[pest_optimizer = false]
    pub struct T;
}
macro_rules! check_rule6 {
    ($name:ident, $s:expr, $cases:expr) => {{
        let s: &str = $s;
        *$cases += 1;
        let key = || format!("grammar6(pest_optimizer=false),rule={},input={:?}", stringify!($name), s);
        fn fp(p: pest::iterators::Pair<'_, p6::Rule>) -> Tree { let sp = p.as_span(); Tree { rule: format!("{:?}", p.as_rule()), start: sp.start(), end: sp.end(), children: p.into_inner().map(fp).collect() } }
        fn ft(t: &ThinToken<t6::Rule>) -> Tree { Tree { rule: format!("{:?}", t.rule), start: t.start, end: t.end, children: t.children.iter().map(ft).collect() } }
        fn pr(t: &Tree) -> Tree { let atomic = ["seq_atomic", "seq_compound", "nest", "nest2", "via_normal", "atomic_via_silent"].contains(&t.rule.as_str()); Tree { rule: t.rule.clone(), start: t.start, end: t.end, children: if atomic { vec![] } else { t.children.iter().map(pr).collect() } } }
        let pest_res: Option<(usize, Tree)> = match p6::P::parse(p6::Rule::$name, s) { Ok(mut pairs) => { let top = pairs.next().unwrap(); Some((top.as_span().end(), fp(top))) } Err(_) => None };
        let tp = t6::pairs::$name::try_parse_partial(s);
        let tc = t6::pairs::$name::try_check_partial(s);
        let typed_res = match &tp { Ok((pos, node)) => Some((pos.pos(), ft(&node.as_thin_token()))), Err(_) => None };
        if pest_res.as_ref().map(|x| x.0) != typed_res.as_ref().map(|x| x.0) { return Err(format!("{} detail=C01/C07: pest {:?} vs typed {:?} (verdict/offset)", key(), pest_res.as_ref().map(|x| x.0), typed_res.as_ref().map(|x| x.0))); }
        if tc.as_ref().ok().map(|p| p.pos()) != typed_res.as_ref().map(|x| x.0) { return Err(format!("{} detail=C03: check and parse disagree", key())); }
        if let (Some((_, pt)), Some((_, tt))) = (&pest_res, &typed_res) {
            if pr(pt) != *tt { return Err(format!("{} detail=C02: pair tree differs: pest(pruned) {:?} vs typed {:?}", key(), pr(pt), tt)); }
        }
    }};
}
fn all_rules6(s: &str, cases: &mut u64) -> Result<(), String> {
    check_rule6!(seq, s, cases); check_rule6!(seq_atomic, s, cases); check_rule6!(seq_compound, s, cases); check_rule6!(seq_nonatomic, s, cases);
    check_rule6!(nest, s, cases); check_rule6!(nest2, s, cases); check_rule6!(via_normal, s, cases); check_rule6!(mid, s, cases);
    check_rule6!(atomic_via_silent, s, cases); check_rule6!(rep, s, cases); check_rule6!(opt, s, cases); check_rule6!(choice, s, cases);
    check_rule6!(pred, s, cases); check_rule6!(stack, s, cases); check_rule6!(stk2, s, cases); check_rule6!(insens, s, cases);
    Ok(())
}
#[test]
fn nb_gen_unoptimized() {
    let l = bound(5);
    let mut cases = 0u64;
    for s in strings(&["a", "b", " ", "c", "B"], l).iter().chain(strings(&["a", "b", "/", "*", " "], l).iter()) {
        let r = std::panic::catch_unwind(std::panic::AssertUnwindSafe(|| all_rules6(s, &mut cases)));
        match r {
            Ok(Ok(())) => {}
            Ok(Err(e)) => { println!("NB-RESULT name=nb_gen_unoptimized status=fail cases={} key={}", cases, e); return; }
            Err(_) => { println!("NB-RESULT name=nb_gen_unoptimized status=fail cases={} key=input={:?} detail=C09: panic", cases, s); return; }
        }
    }
    println!("NB-RESULT name=nb_gen_unoptimized status=ok cases={} key=- detail=parser generated with pest_optimizer = false (the generator's second code path): 16 rules x all strings<={} chars over 2 alphabets: verdict/offset/pair tree vs pest, check==parse", cases, l);
}


// ---- finding D8: `e+` / counted repetitions with `#[pest_optimizer = false]` vs pest under implicit skipping ---------------------------
mod p7 {
    #[derive(pest_derive::Parser)]
    #[grammar_inline = r#"
WHITESPACE = _{ " " }
a = { "a" }
plus = { a+ }
"#]
    pub struct P;
}
mod t7 {
    use pest_typed_derive::TypedParser;
    #[derive(TypedParser)]
    #[grammar_inline = r#"
WHITESPACE = _{ " " }
a = { "a" }
plus = { a+ }
"#]
    #[pest_optimizer = false]
    pub struct T;
}
#[test]
fn nb_gen_unopt_plus() {
    let l = bound(5);
    let mut cases = 0u64;
    let mut first: Option<String> = None;
    let mut n = 0u64;
    for s in strings(&["a", " "], l).iter() {
        cases += 1;
        let pe = p7::P::parse(p7::Rule::plus, s).ok().map(|mut x| x.next().unwrap().as_span().end());
        let ty = t7::pairs::plus::try_parse_partial(s.as_str()).ok().map(|x| x.0.pos());
        // the only tolerated class: both accept, typed stops exactly before trailing blanks that pest consumes
        let known_class = match (pe, ty) { (Some(p), Some(t)) => t < p && s[t..p].chars().all(|c| c == ' '), _ => false };
        if pe != ty {
            if !known_class { println!("NB-RESULT name=nb_gen_unopt_plus status=fail cases={} key=rule=plus,input={:?} detail=C01/C07: pest {:?} vs typed(pest_optimizer=false) {:?} — NOT the known trailing-skip class", cases, s, pe, ty); return; }
            n += 1;
            if first.is_none() { first = Some(format!("rule=plus,input={:?}", s).replace(' ', "\u{2423}")); }   // blanks shown as U+2423: the key must not contain spaces
        }
    }
    match first {
        Some(k) => println!("NB-RESULT name=nb_gen_unopt_plus status=fail cases={} key={} detail=C01/C07: with pest_optimizer = false `a+` stops before a trailing blank that pest (which always rewrites e+ to e ~ e*) consumes; {} of {} inputs, all of this one class", cases, k, n, cases),
        None => println!("NB-RESULT name=nb_gen_unopt_plus status=ok cases={} key=- detail=a+ with pest_optimizer = false vs pest: all strings<={} chars over {{a,blank}}", cases, l),
    }
}


// ---- grammar 8: a grammar WITHOUT any plain normal rule (only _ @ $ ! kinds): the generator decides which skip rules exist from the
// rules it collected ------------------------------------------------------------------------------------------------------------------
mod p8 {
    #[derive(pest_derive::Parser)]
    #[grammar_inline = r#"
WHITESPACE = _{ " " }
COMMENT = _{ "/*" ~ (!"*/" ~ ANY)* ~ "*/" }
item = @{ ('a'..'b')+ }
list = !{ item ~ ("," ~ item)* }
entry = _{ list }
cmp = ${ item ~ list }
"#]
    pub struct P;
}
mod t8 {
    use pest_typed_derive::TypedParser;
    #[derive(TypedParser)]
    #[grammar_inline = r#"
WHITESPACE = _{ " " }
COMMENT = _{ "/*" ~ (!"*/" ~ ANY)* ~ "*/" }
item = @{ ('a'..'b')+ }
list = !{ item ~ ("," ~ item)* }
entry = _{ list }
cmp = ${ item ~ list }
"#]
    pub struct T;
}
#[test]
fn nb_gen_no_normal_rule() {
    let l = bound(6);
    let mut cases = 0u64;
    for s in strings(&["a", ",", " ", "/*", "*/"], l).iter() {
        macro_rules! one { ($name:ident) => {{
            cases += 1;
            let pe = p8::P::parse(p8::Rule::$name, s).ok().map(|mut x| x.next().unwrap().as_span().end());
            let ty = t8::pairs::$name::try_parse_partial(s.as_str()).ok().map(|x| x.0.pos());
            let tc = t8::pairs::$name::try_check_partial(s.as_str()).ok().map(|x| x.pos());
            if pe != ty || ty != tc { println!("NB-RESULT name=nb_gen_no_normal_rule status=fail cases={} key=grammar8,rule={},input={:?} detail=C01/C07: pest {:?} vs typed parse {:?} / check {:?}", cases, stringify!($name), s, pe, ty, tc); return; }
        }}; }
        one!(item); one!(list); one!(cmp);
        cases += 1;
        let pe = p8::P::parse(p8::Rule::entry, s).ok().map(|x| x.last().map_or(0, |p| p.as_span().end()));
        let ty = t8::rules::entry::try_parse_partial(s.as_str()).ok().map(|x| x.0.pos());
        // a silent entry rule yields its inner pairs in pest: compare the verdict only
        if pe.is_some() != ty.is_some() { println!("NB-RESULT name=nb_gen_no_normal_rule status=fail cases={} key=grammar8,rule=entry,input={:?} detail=C01: verdict pest {:?} vs typed {:?}", cases, s, pe, ty); return; }
    }
    println!("NB-RESULT name=nb_gen_no_normal_rule status=ok cases={} key=- detail=grammar with only silent / atomic / compound-atomic / non-atomic rules: 4 rules x all strings<={} tokens over {{a,comma,blank,/*,*/}}: verdict and offset vs pest, check==parse", cases, l);
}
